// C29: block hashes commit to block contents; Validate rejects wrong hash / wrong or missing
// generator signature / repeated transaction.
//
// Base blocks: (1) three transactions with outputs, no magic block; (2) two transactions and a magic
// block (2 miners, 1 sharder, MPKs, share-or-signs); (3) empty block.
// Tampering: reflect walk over every wire-visible leaf of block.Block (UnverifiedBlockBody, every
// transaction, tickets, MagicBlock with pools/MPKs/shares; a field added later is covered), every
// value of its kind's alphabet, plus structural tamperings (drop/swap/duplicate/append transaction,
// add/remove magic block, remove pool node / MPK / share entry). Two attacker variants:
//
//	plain      - only the field changes
//	consistent - nested derived hashes are re-derived with the real functions (txn.ComputeHash,
//	             txn.ComputeOutputHash, MagicBlock.GetHash), as an encoder of the altered content would
//
// Every case is what a node receives: JSON -> datastore.FromJSON (decode + ComputeProperties) ->
// ComputeHash / Validate on the received object.
// Oracle (statement):
//   - ComputeHash is deterministic and equal on every decode of the same wire block;
//   - if the received block differs from the original in generator, parent, round, seed, transactions,
//     outputs, resulting state or magic block, its ComputeHash differs (plain variant: or the altered
//     nested item fails its own real hash check, which every verifier runs: txn hash / output hash);
//   - hash != ComputeHash, bad/missing/foreign generator signature, repeated transaction => Validate rejects.
package main

import (
	"context"
	"encoding/json"
	"fmt"
	"reflect"
	"regexp"
	"sort"
	"strings"

	"0chain.net/chaincore/block"
	"0chain.net/chaincore/client"
	"0chain.net/chaincore/node"
	tbls "0chain.net/chaincore/threshold/bls"
	"0chain.net/chaincore/transaction"
	"0chain.net/core/common"
	"0chain.net/core/datastore"
	"github.com/0chain/common/core/currency"
	"verif/lib/ev"
)

type leaf struct {
	path string // with indices / keys
	norm string // indices and keys stripped
	v    reflect.Value
}

var idxRe = regexp.MustCompile(`\[[^\]]*\]|\{[^}]*\}`)

func walkLeaves(v reflect.Value, path string, out *[]leaf) {
	switch v.Kind() {
	case reflect.Ptr:
		if !v.IsNil() {
			walkLeaves(v.Elem(), path, out)
		}
	case reflect.Struct:
		t := v.Type()
		if t.PkgPath() == "time" || t.PkgPath() == "sync" {
			return
		}
		for i := 0; i < t.NumField(); i++ {
			f := t.Field(i)
			if !f.IsExported() || strings.HasPrefix(f.Tag.Get("json"), "-") {
				continue
			}
			p := path
			if !(f.Anonymous && f.Type.Kind() == reflect.Struct) {
				if p != "" {
					p += "."
				}
				p += f.Name
			}
			walkLeaves(v.Field(i), p, out)
		}
	case reflect.Slice:
		if v.Type().Elem().Kind() == reflect.Uint8 {
			*out = append(*out, leaf{path, idxRe.ReplaceAllString(path, "[]"), v})
			return
		}
		for i := 0; i < v.Len(); i++ {
			walkLeaves(v.Index(i), fmt.Sprintf("%s[%d]", path, i), out)
		}
	case reflect.Map:
		keys := v.MapKeys()
		sort.Slice(keys, func(i, j int) bool { return keys[i].String() < keys[j].String() })
		for i, k := range keys {
			walkLeaves(v.MapIndex(k), fmt.Sprintf("%s[#%d]", path, i), out)
		}
	case reflect.String, reflect.Bool, reflect.Int, reflect.Int8, reflect.Int16, reflect.Int32, reflect.Int64,
		reflect.Uint, reflect.Uint8, reflect.Uint16, reflect.Uint32, reflect.Uint64, reflect.Float64:
		*out = append(*out, leaf{path, idxRe.ReplaceAllString(path, "[]"), v})
	}
}

// leafAlphabet: replacement values of a leaf (applied by index so that a fresh copy can be tampered)
func leafAlphabet(v reflect.Value) []func(reflect.Value) {
	var out []func(reflect.Value)
	switch v.Kind() {
	case reflect.String:
		s := v.String()
		if s != "" {
			out = append(out, func(x reflect.Value) { x.SetString("") })
			out = append(out, func(x reflect.Value) {
				s := x.String()
				r := "0"
				if s[len(s)-1] == '0' {
					r = "1"
				}
				x.SetString(s[:len(s)-1] + r)
			})
			out = append(out, func(x reflect.Value) {
				s := x.String()
				r := "1"
				if s[0] == '1' {
					r = "2"
				}
				x.SetString(r + s[1:])
			})
		}
		out = append(out, func(x reflect.Value) { x.SetString(x.String() + "0") })
	case reflect.Bool:
		out = append(out, func(x reflect.Value) { x.SetBool(!x.Bool()) })
	case reflect.Int, reflect.Int8, reflect.Int16, reflect.Int32, reflect.Int64:
		out = append(out, func(x reflect.Value) { x.SetInt(x.Int() + 1) })
		out = append(out, func(x reflect.Value) { x.SetInt(x.Int() - 1) })
		if v.Int() != 0 {
			out = append(out, func(x reflect.Value) { x.SetInt(0) })
		}
	case reflect.Uint, reflect.Uint8, reflect.Uint16, reflect.Uint32, reflect.Uint64:
		out = append(out, func(x reflect.Value) { x.SetUint(x.Uint() + 1) })
		if v.Uint() != 0 {
			out = append(out, func(x reflect.Value) { x.SetUint(0) })
		}
	case reflect.Float64:
		out = append(out, func(x reflect.Value) { x.SetFloat(x.Float() + 1) })
	case reflect.Slice: // bytes
		out = append(out, func(x reflect.Value) {
			b := append([]byte{}, x.Bytes()...)
			if len(b) == 0 {
				b = []byte{1}
			} else {
				b[0] ^= 1
			}
			x.SetBytes(b)
		})
		if v.Len() > 0 {
			out = append(out, func(x reflect.Value) {
				b := append([]byte{}, x.Bytes()...)
				b[len(b)-1] ^= 0x80
				x.SetBytes(b)
			})
			out = append(out, func(x reflect.Value) { x.SetBytes([]byte{}) })
		}
	}
	return out
}

// c29Class maps a normalised path to the statement's list of effect-relevant content ("" = not listed).
func c29Class(norm string) string {
	switch norm {
	case "MinerID":
		return "generator"
	case "PrevHash":
		return "parent"
	case "Round":
		return "round"
	case "RoundRandomSeed":
		return "seed"
	case "ClientStateHash", "StateChangesCount":
		return "state"
	case "Txns[].Hash", "Txns[].ClientID", "Txns[].PublicKey", "Txns[].ToClientID", "Txns[].TransactionData", "Txns[].Value",
		"Txns[].CreationDate", "Txns[].Fee", "Txns[].Nonce", "Txns[].TransactionType":
		return "transactions"
	case "Txns[].TransactionOutput", "Txns[].OutputHash":
		return "outputs"
	case "MagicBlock.Hash", "MagicBlock.PreviousMagicBlockHash", "MagicBlock.MagicBlockNumber", "MagicBlock.StartingRound",
		"MagicBlock.T", "MagicBlock.K", "MagicBlock.N",
		"MagicBlock.Miners.NodesMap[].ID", "MagicBlock.Miners.NodesMap[].PublicKey",
		"MagicBlock.Sharders.NodesMap[].ID", "MagicBlock.Sharders.NodesMap[].PublicKey",
		"MagicBlock.Mpks.Mpks[].Mpk[]",
		"MagicBlock.ShareOrSigns.Shares[].ShareOrSigns[].Message", "MagicBlock.ShareOrSigns.Shares[].ShareOrSigns[].Share",
		"MagicBlock.ShareOrSigns.Shares[].ShareOrSigns[].Sign":
		return "magic-block"
	}
	return ""
}

type c29world struct {
	miners  []keyPair // registered miners; [0] generates
	ids     []string
	wires   map[string][]byte // base name -> canonical wire form
	foreign *transaction.Transaction
}

func (w *c29world) minerPub(id string) string {
	for i, x := range w.ids {
		if x == id {
			return w.miners[i].Pub
		}
	}
	return ""
}

func decodeBlock(wire []byte) (*block.Block, error) {
	b := datastore.GetEntityMetadata("block").Instance().(*block.Block)
	if err := datastore.FromJSON(wire, b); err != nil {
		return nil, err
	}
	return b, nil
}

func encodeBlock(b *block.Block) []byte {
	w, err := json.Marshal(b)
	if err != nil {
		ev.Fatal("encode block: %v", err)
	}
	return w
}

func c29MagicBlock() *block.MagicBlock {
	mb := block.NewMagicBlock()
	mb.Miners = node.NewPool(node.NodeTypeMiner)
	mb.Sharders = node.NewPool(node.NodeTypeSharder)
	var ids []string
	for i := 0; i < 3; i++ {
		kp := detKey(blsScheme, 40+i)
		typ := node.NodeTypeMiner
		if i == 2 {
			typ = node.NodeTypeSharder
		}
		n, err := node.NewNode(map[interface{}]interface{}{"type": typ, "public_ip": fmt.Sprintf("10.0.0.%d", i), "n2n_ip": fmt.Sprintf("10.0.1.%d", i),
			"port": 7100 + i, "id": refHash(mustHex(kp.Pub)), "public_key": kp.Pub, "description": fmt.Sprintf("node-%d", i)})
		if err != nil {
			ev.Fatal("mb node: %v", err)
		}
		if i == 2 {
			_ = mb.Sharders.AddNode(n)
		} else {
			_ = mb.Miners.AddNode(n)
			ids = append(ids, n.GetKey())
		}
	}
	mb.MagicBlockNumber = 3
	mb.StartingRound = 500
	mb.PreviousMagicBlockHash = refHash([]byte("previous-magic-block"))
	mb.T, mb.K, mb.N = 2, 2, 2
	dkgs := []*tbls.DKG{tbls.MakeDKG(2, 2, ids[0]), tbls.MakeDKG(2, 2, ids[1])}
	for i, d := range dkgs {
		mpk := &block.MPK{ID: ids[i]}
		for _, pk := range d.GetMPKs() {
			mpk.Mpk = append(mpk.Mpk, pk.GetHexString())
		}
		mb.Mpks.Mpks[ids[i]] = mpk
	}
	for i, d := range dkgs {
		sos := block.NewShareOrSigns()
		sos.ID = ids[i]
		j := 1 - i
		if i == 0 {
			sh, _ := d.ComputeDKGKeyShare(tbls.ComputeIDdkg(ids[j]))
			sos.ShareOrSigns[ids[j]] = &tbls.DKGKeyShare{Share: sh.GetHexString()}
		} else {
			m := msgHash(9)
			sg, _ := signer(detKey(blsScheme, 40+j)).Sign(m)
			sos.ShareOrSigns[ids[j]] = &tbls.DKGKeyShare{Message: m, Sign: sg}
		}
		mb.ShareOrSigns.Shares[ids[i]] = sos
	}
	mb.Hash = mb.GetHash()
	return mb
}

func c29Txn(i int, ts common.Timestamp) *transaction.Transaction {
	kp := detKey(blsScheme, 30+i%2)
	t := datastore.GetEntityMetadata("txn").Instance().(*transaction.Transaction)
	t.ClientID = refHash(mustHex(kp.Pub))
	t.PublicKey = kp.Pub
	t.ToClientID = refHash([]byte(fmt.Sprintf("to-%d", i)))
	t.CreationDate = ts
	t.Nonce = int64(i + 1)
	t.Value = currency.Coin(10 * (i + 1))
	t.Fee = currency.Coin(2 + i)
	switch i % 3 {
	case 0:
		t.TransactionType = transaction.TxnTypeSend
	case 1:
		t.TransactionType = transaction.TxnTypeData
		t.TransactionData = fmt.Sprintf("data-%d", i)
	case 2:
		t.TransactionType = transaction.TxnTypeSmartContract
		t.TransactionData = fmt.Sprintf(`{"name":"f%d","input":{}}`, i)
	}
	if _, err := t.Sign(signer(kp)); err != nil {
		ev.Fatal("sign: %v", err)
	}
	t.TransactionOutput = fmt.Sprintf("output-of-%d", i)
	t.OutputHash = t.ComputeOutputHash()
	t.Status = transaction.TxnSuccess
	return t
}

func newC29World() *c29world {
	setupEntities()
	client.SetClientSignatureScheme(blsScheme)
	w := &c29world{wires: map[string][]byte{}}
	for i := 0; i < 2; i++ {
		kp := detKey(blsScheme, 50+i)
		n := newMinerNode(kp, 50+i)
		node.RegisterNode(n)
		w.miners = append(w.miners, kp)
		w.ids = append(w.ids, n.GetKey())
	}
	ts := common.Timestamp(1700000000)
	w.foreign = c29Txn(7, ts)
	mk := func(name string, ntx int, mb *block.MagicBlock) {
		b := datastore.GetEntityMetadata("block").Instance().(*block.Block)
		b.CreationDate = ts + 5
		b.MinerID = w.ids[0]
		b.PrevHash = refHash([]byte("parent-of-" + name))
		b.Round = 501
		b.RoundRandomSeed = 123456789
		b.RoundTimeoutCount = 1
		b.LatestFinalizedMagicBlockHash = refHash([]byte("lfmb"))
		b.LatestFinalizedMagicBlockRound = 400
		b.ClientStateHash = mustHex(refHash([]byte("state-after-" + name)))
		b.StateChangesCount = 4
		b.RunningTxnCount = 77
		for i := 0; i < ntx; i++ {
			b.Txns = append(b.Txns, c29Txn(i, ts))
		}
		b.MagicBlock = mb
		stripMBHash := strings.HasSuffix(name, "-nohash")
		if stripMBHash {
			b.MagicBlock.Hash = "" // as built by NewMagicBlock() without setting Hash
		}
		tk, _ := signer(w.miners[1]).Sign(b.PrevHash)
		b.PrevBlockVerificationTickets = []*block.VerificationTicket{{VerifierID: w.ids[1], Signature: tk}}
		b.HashBlock()
		sg, err := signer(w.miners[0]).Sign(b.Hash)
		if err != nil {
			ev.Fatal("sign block: %v", err)
		}
		b.Signature = sg
		vt, _ := signer(w.miners[1]).Sign(b.Hash)
		b.VerificationTickets = []*block.VerificationTicket{{VerifierID: w.ids[1], Signature: vt}}
		if stripMBHash {
			b.MagicBlock.Hash = "" // HashBlock fills it in memory; the wire form omits it
		}
		rb, err := decodeBlock(encodeBlock(b))
		if err != nil {
			ev.Fatal("base block %s does not decode: %v", name, err)
		}
		w.wires[name] = encodeBlock(rb)
	}
	mk("txns", 3, nil)
	mk("magic", 2, c29MagicBlock())
	mk("empty", 0, nil)
	mk("magic-nohash", 2, c29MagicBlock())
	bare := block.NewMagicBlock()
	bare.Miners = node.NewPool(node.NodeTypeMiner)
	bare.Sharders = node.NewPool(node.NodeTypeSharder)
	mk("baremagic-nohash", 1, bare)
	return w
}

type structural struct {
	name  string
	class string
	apply func(b *block.Block, w *c29world) bool // false = not applicable
}

func firstKey(m interface{}) string {
	keys := reflect.ValueOf(m).MapKeys()
	sort.Slice(keys, func(i, j int) bool { return keys[i].String() < keys[j].String() })
	return keys[0].String()
}

var c29Structural = []structural{
	{"Txns:drop-last", "transactions", func(b *block.Block, w *c29world) bool {
		if len(b.Txns) == 0 {
			return false
		}
		b.Txns = b.Txns[:len(b.Txns)-1]
		return true
	}},
	{"Txns:drop-all", "transactions", func(b *block.Block, w *c29world) bool {
		if len(b.Txns) == 0 {
			return false
		}
		b.Txns = nil
		return true
	}},
	{"Txns:swap-first-two", "transactions", func(b *block.Block, w *c29world) bool {
		if len(b.Txns) < 2 {
			return false
		}
		b.Txns[0], b.Txns[1] = b.Txns[1], b.Txns[0]
		return true
	}},
	{"Txns:append-foreign", "transactions", func(b *block.Block, w *c29world) bool {
		b.Txns = append(b.Txns, w.foreign.Clone())
		return true
	}},
	{"MagicBlock:remove", "magic-block", func(b *block.Block, w *c29world) bool {
		if b.MagicBlock == nil {
			return false
		}
		b.MagicBlock = nil
		return true
	}},
	{"MagicBlock:add", "magic-block", func(b *block.Block, w *c29world) bool {
		if b.MagicBlock != nil {
			return false
		}
		b.MagicBlock = c29MagicBlock()
		return true
	}},
	{"MagicBlock:add-without-hash", "magic-block", func(b *block.Block, w *c29world) bool {
		if b.MagicBlock != nil {
			return false
		}
		b.MagicBlock = c29MagicBlock()
		b.MagicBlock.Hash = ""
		return true
	}},
	{"MagicBlock:add-bare-without-hash", "magic-block", func(b *block.Block, w *c29world) bool {
		if b.MagicBlock != nil {
			return false
		}
		b.MagicBlock = block.NewMagicBlock()
		b.MagicBlock.Miners = node.NewPool(node.NodeTypeMiner)
		b.MagicBlock.Sharders = node.NewPool(node.NodeTypeSharder)
		return true
	}},
	{"MagicBlock:replace-by-other-without-hash", "magic-block", func(b *block.Block, w *c29world) bool {
		if b.MagicBlock == nil || b.MagicBlock.Hash != "" {
			return false
		}
		mb := c29MagicBlock()
		mb.Hash = ""
		mb.MagicBlockNumber += 1
		mb.StartingRound += 100
		b.MagicBlock = mb
		return true
	}},
	{"MagicBlock.Miners:remove-node", "magic-block", func(b *block.Block, w *c29world) bool {
		if b.MagicBlock == nil {
			return false
		}
		if len(b.MagicBlock.Miners.NodesMap) == 0 {
			return false
		}
		delete(b.MagicBlock.Miners.NodesMap, firstKey(b.MagicBlock.Miners.NodesMap))
		return true
	}},
	{"MagicBlock.Sharders:remove-node", "magic-block", func(b *block.Block, w *c29world) bool {
		if b.MagicBlock == nil {
			return false
		}
		if len(b.MagicBlock.Sharders.NodesMap) == 0 {
			return false
		}
		delete(b.MagicBlock.Sharders.NodesMap, firstKey(b.MagicBlock.Sharders.NodesMap))
		return true
	}},
	{"MagicBlock.Mpks:remove-entry", "magic-block", func(b *block.Block, w *c29world) bool {
		if b.MagicBlock == nil {
			return false
		}
		if len(b.MagicBlock.Mpks.Mpks) == 0 {
			return false
		}
		delete(b.MagicBlock.Mpks.Mpks, firstKey(b.MagicBlock.Mpks.Mpks))
		return true
	}},
	{"MagicBlock.Mpks:drop-coefficient", "magic-block", func(b *block.Block, w *c29world) bool {
		if b.MagicBlock == nil {
			return false
		}
		if len(b.MagicBlock.Mpks.Mpks) == 0 {
			return false
		}
		m := b.MagicBlock.Mpks.Mpks[firstKey(b.MagicBlock.Mpks.Mpks)]
		m.Mpk = m.Mpk[:len(m.Mpk)-1]
		return true
	}},
	{"MagicBlock.ShareOrSigns:remove-sender", "magic-block", func(b *block.Block, w *c29world) bool {
		if b.MagicBlock == nil {
			return false
		}
		if len(b.MagicBlock.ShareOrSigns.Shares) == 0 {
			return false
		}
		delete(b.MagicBlock.ShareOrSigns.Shares, firstKey(b.MagicBlock.ShareOrSigns.Shares))
		return true
	}},
	{"MagicBlock.ShareOrSigns:remove-share", "magic-block", func(b *block.Block, w *c29world) bool {
		if b.MagicBlock == nil {
			return false
		}
		if len(b.MagicBlock.ShareOrSigns.Shares) == 0 {
			return false
		}
		s := b.MagicBlock.ShareOrSigns.Shares[firstKey(b.MagicBlock.ShareOrSigns.Shares)]
		delete(s.ShareOrSigns, firstKey(s.ShareOrSigns))
		return true
	}},
}

// rederive recomputes nested derived hashes with the real functions (the "consistent" attacker).
// Returns false if nothing is derivable for this path (consistent == plain).
func rederive(b *block.Block, path string) bool {
	done := false
	if strings.HasPrefix(path, "Txns") {
		for _, t := range b.Txns {
			if h := t.ComputeHash(); h != t.Hash && !strings.HasSuffix(path, ".Hash") {
				t.Hash = h
				done = true
			}
			if oh := t.ComputeOutputHash(); oh != t.OutputHash && !strings.HasSuffix(path, ".OutputHash") {
				t.OutputHash = oh
				done = true
			}
		}
		// fee / type etc.: nothing changes in the nested hash, still the "consistent" encoding
		return true
	}
	if strings.HasPrefix(path, "MagicBlock") && path != "MagicBlock.Hash" && b.MagicBlock != nil {
		if b.MagicBlock.Hash == "" {
			return false // the encoder omits the magic block hash: the plain variant already is the consistent one
		}
		b.MagicBlock.Hash = b.MagicBlock.GetHash()
		return true
	}
	return done
}

func c29() {
	run := ev.Start("C29")
	w := newC29World()
	ctx := context.Background()
	run.Rule = "3 base blocks; every wire-visible leaf (reflect walk) x its kind's alphabet + structural tamperings, x {plain, consistent}; every case evaluated on the block a node receives (JSON -> FromJSON -> ComputeHash/Validate), plus hash re-computed-by-attacker and re-signed-by-generator variants for the Validate clauses. distinct = (base, normalised path, variant, result class)"
	run.Bounds["bases"] = []string{"txns(3 txns)", "magic(2 txns + magic block)", "empty", "magic-nohash(2 txns + magic block whose Hash is empty on the wire)", "baremagic-nohash(1 txn + NewMagicBlock() with empty pools, Hash empty)"}
	run.Bounds["variants"] = []string{"plain", "consistent", "rehash", "resigned(duplicates)", "respell-{upper,mixed,miracl} of every hex-valued string leaf, plain and consistent"}

	notHashed := map[string]bool{}
	classified := map[string]string{}
	for _, name := range []string{"txns", "magic", "empty", "magic-nohash", "baremagic-nohash"} {
		wire0 := w.wires[name]
		orig, err := decodeBlock(wire0)
		if err != nil {
			ev.Fatal("decode base: %v", err)
		}
		if strings.HasSuffix(name, "-nohash") && (orig.MagicBlock == nil || orig.MagicBlock.Hash != "") {
			ev.Fatal("base %s: received magic block should carry an empty hash", name)
		}
		h0 := orig.ComputeHash()
		canon0 := string(encodeBlock(orig)) // as a receiver holds it after hashing (an empty MagicBlock.Hash may have been filled in)
		// determinism / function of contents
		for i := 0; i < 3; i++ {
			again, _ := decodeBlock(wire0)
			run.Add(0, 0, 1)
			if again.ComputeHash() != h0 || again.ComputeHash() != h0 || orig.ComputeHash() != h0 {
				run.Violation("C29:ComputeHash:not-deterministic", name+": two decodes of one wire block hash differently", json.RawMessage(wire0))
			}
		}
		if orig.Hash != h0 {
			ev.Fatal("base block %s: stored hash differs from ComputeHash", name)
		}
		err = orig.Validate(ctx)
		run.Add(1, 0, 1)
		run.Outcome(name + "/untampered/" + errClass(err))
		if err != nil {
			run.Violation("C29:Validate:untampered-rejected", fmt.Sprintf("%s: correctly hashed and signed block rejected: %v", name, err), json.RawMessage(wire0))
			continue
		}
		if name == "txns" {
			run.Sample(map[string]any{"base": name, "hash": h0, "hash_data_fields": "MinerID:PrevHash:CreationDate:Round:RoundRandomSeed:StateChangesCount:txn merkle root:receipt merkle root[:MagicBlock.Hash]"})
		}

		// evaluate one tampered in-memory block
		eval := func(path, norm, class, variant string, tb *block.Block) {
			wire1 := encodeBlock(tb)
			recv, derr := decodeBlock(wire1)
			run.Add(0, 1, 1)
			tag := fmt.Sprintf("%s/%s/%s", name, norm, variant)
			rep := map[string]any{"base": name, "path": path, "variant": variant, "original": json.RawMessage(wire0), "tampered": json.RawMessage(wire1)}
			if derr != nil {
				run.Outcome(tag + "/rejected-at-decode")
				return
			}
			emptyMBHash := recv.MagicBlock != nil && recv.MagicBlock.Hash == "" // magic block received without its hash
			h1 := recv.ComputeHash()                                            // (fills an empty MagicBlock.Hash, as the real code does)
			if string(encodeBlock(recv)) == canon0 {
				run.Outcome(tag + "/normalised-to-original")
				return
			}
			verr := recv.Validate(ctx)
			respell := strings.Contains(variant, "respell")
			// a block whose Hash field is not byte for byte its computed hash is rejected
			if verr == nil && recv.Hash != h1 {
				run.Outcome(tag + "/hash-field-differs-from-computed-hash/accepted")
				run.Violation("C29:Validate:hash-mismatch-accepted", fmt.Sprintf("%s: %s (%s): block hash field %q != ComputeHash %q but Validate accepts", name, path, variant, recv.Hash, h1), rep)
				return
			}
			if h1 != h0 {
				run.Outcome(tag + "/hash-changed/" + errClass(verr))
				// attacker recomputes the hash but cannot re-sign
				recv.Hash = h1
				rerr := recv.Validate(ctx)
				run.Add(0, 0, 1)
				sigOK := verifyWith(blsScheme, w.minerPub(recv.MinerID), recv.Signature, recv.Hash) == "ok"
				run.Outcome(tag + "/rehash/" + errClass(rerr))
				if rerr == nil && !sigOK {
					run.Violation("C29:Validate:stale-signature-accepted", fmt.Sprintf("%s: %s: hash recomputed, generator signature is over the old hash, Validate accepts", name, path), rep)
				}
				return
			}
			// hash unchanged
			if class == "" {
				run.Outcome(tag + "/hash-unchanged(unlisted field)/" + errClass(verr))
				return
			}
			classified[norm] = class
			// plain variant on a nested item: the item's own hash check (run by every verifier)
			if strings.HasPrefix(variant, "plain") && strings.HasPrefix(path, "Txns") {
				for _, t := range recv.Txns {
					if terr := t.ValidateWrtTimeForBlock(ctx, recv.CreationDate, true); terr != nil {
						run.Outcome(tag + "/hash-unchanged/caught-by-nested-" + errClass(terr))
						return
					}
				}
			}
			run.Outcome(tag + "/hash-unchanged/" + errClass(verr))
			if respell && (strings.HasSuffix(norm, "PublicKey") || strings.HasSuffix(norm, "Signature")) {
				// the same key bytes / the same signature element written differently: meaning unchanged
				run.Outcome(tag + "/hash-unchanged/same-bytes-respelled/" + errClass(verr))
				return
			}
			if strings.HasPrefix(variant, "plain") && !emptyMBHash && recv.MagicBlock != nil && strings.HasPrefix(path, "MagicBlock") && path != "MagicBlock:add" {
				// content of the magic block altered, carried MagicBlock.Hash string unchanged
				run.Violation("C29:getHashData:magic-block-content-under-carried-hash",
					fmt.Sprintf("%s: %s altered; ComputeHash hashes the carried MagicBlock.Hash string, which nothing compares with MagicBlock.GetHash(): block hash unchanged, Validate: %v", name, path, verr), rep)
				return
			}
			if norm == "MagicBlock.Mpks:drop-coefficient" {
				norm = "MagicBlock.Mpks.Mpks[].Mpk[]" // same content: the MPK coefficients
			}
			notHashed[norm] = true
			note := ""
			if emptyMBHash {
				note = " [magic block carried with Hash==\"\"]"
			}
			run.Violation("C29:getHashData:"+norm+"-not-hashed",
				fmt.Sprintf("%s: %s (%s, listed as '%s') altered in the received block%s, ComputeHash unchanged (%s), Validate: %v", name, path, variant, class, note, h0[:12], verr), rep)
		}

		proto, _ := decodeBlock(wire0)
		var leaves []leaf
		walkLeaves(reflect.ValueOf(proto), "", &leaves)
		for li, lf := range leaves {
			class := c29Class(lf.norm)
			for ai := range leafAlphabet(lf.v) {
				for _, variant := range []string{"plain", "consistent"} {
					tb, _ := decodeBlock(wire0)
					var ls []leaf
					walkLeaves(reflect.ValueOf(tb), "", &ls)
					if len(ls) != len(leaves) || ls[li].path != lf.path {
						ev.Fatal("leaf walk not stable at %s", lf.path)
					}
					leafAlphabet(ls[li].v)[ai](ls[li].v)
					if variant == "consistent" {
						// normalise through the wire first, then re-derive on what a decoder sees
						nb, derr := decodeBlock(encodeBlock(tb))
						if derr != nil {
							continue
						}
						if !rederive(nb, lf.path) {
							continue
						}
						tb = nb
					}
					eval(lf.path, lf.norm, class, variant, tb)
				}
			}
		}
		// respellings of every hex-valued string leaf: upper / mixed case, MIRACL forms of bls signatures and keys
		for li, lf := range leaves {
			if lf.v.Kind() != reflect.String {
				continue
			}
			parts := strings.Split(lf.norm, ".")
			fname := strings.TrimSuffix(parts[len(parts)-1], "[]")
			class := c29Class(lf.norm)
			for _, rs := range respellings(fname, lf.v.String(), blsScheme) {
				for _, variant := range []string{"plain", "consistent"} {
					tb, _ := decodeBlock(wire0)
					var ls []leaf
					walkLeaves(reflect.ValueOf(tb), "", &ls)
					if len(ls) != len(leaves) || ls[li].path != lf.path {
						ev.Fatal("leaf walk not stable at %s", lf.path)
					}
					ls[li].v.SetString(rs.val)
					if variant == "consistent" {
						nb, derr := decodeBlock(encodeBlock(tb))
						if derr != nil || !rederive(nb, lf.path) {
							continue
						}
						tb = nb
					}
					eval(lf.path, lf.norm, class, variant+"/respell-"+rs.how, tb)
				}
			}
		}
		for _, st := range c29Structural {
			for _, variant := range []string{"plain", "consistent"} {
				tb, _ := decodeBlock(wire0)
				if !st.apply(tb, w) {
					continue
				}
				if variant == "consistent" {
					nb, derr := decodeBlock(encodeBlock(tb))
					if derr != nil || !rederive(nb, st.name) {
						continue
					}
					tb = nb
				}
				eval(st.name, st.name, st.class, variant, tb)
			}
		}

		// ---- Validate clauses with a signing attacker --------------------------------------
		vcase := func(cname string, mustReject bool, mut func(b *block.Block)) {
			tb, _ := decodeBlock(wire0)
			mut(tb)
			wire1 := encodeBlock(tb)
			recv, derr := decodeBlock(wire1)
			run.Add(0, 1, 1)
			res := "rejected-at-decode"
			var verr error
			if derr == nil {
				verr = recv.Validate(ctx)
				res = errClass(verr)
			}
			run.Outcome(name + "/validate:" + cname + "/" + res)
			if mustReject && derr == nil && verr == nil {
				run.Violation("C29:Validate:"+cname+"-accepted", fmt.Sprintf("%s: %s: Validate accepts", name, cname),
					map[string]any{"base": name, "case": cname, "tampered": json.RawMessage(wire1)})
			}
		}
		resign := func(b *block.Block, by int) {
			b.Hash = b.ComputeHash()
			b.Signature, _ = signer(w.miners[by]).Sign(b.Hash)
		}
		vcase("signature-missing", true, func(b *block.Block) { b.Signature = "" })
		vcase("signature-by-other-registered-miner", true, func(b *block.Block) { b.Signature, _ = signer(w.miners[1]).Sign(b.Hash) })
		vcase("signature-over-another-hash", true, func(b *block.Block) { b.Signature, _ = signer(w.miners[0]).Sign(msgHash(3)) })
		vcase("generator-swapped-signature-kept", true, func(b *block.Block) { b.MinerID = w.ids[1]; b.Hash = b.ComputeHash() })
		vcase("generator-unknown", true, func(b *block.Block) { b.MinerID = refHash([]byte("nobody")); resign(b, 0) })
		vcase("hash-empty", true, func(b *block.Block) { b.Hash = "" })
		vcase("resigned-by-generator-after-change", false, func(b *block.Block) { b.Round++; resign(b, 0) })
		if len(orig.Txns) > 0 {
			for _, which := range []string{"first", "last"} {
				dup := func(b *block.Block) {
					t := b.Txns[0]
					if which == "last" {
						t = b.Txns[len(b.Txns)-1]
					}
					b.Txns = append(b.Txns, t.Clone())
				}
				vcase("duplicate-"+which+"-transaction-hash-stale", true, dup)
				vcase("duplicate-"+which+"-transaction-resigned-by-generator", true, func(b *block.Block) { dup(b); resign(b, 0) })
			}
			vcase("duplicate-adjacent-resigned-by-generator", true, func(b *block.Block) {
				b.Txns = append([]*transaction.Transaction{b.Txns[0].Clone()}, b.Txns...)
				resign(b, 0)
			})
		}
	}
	var nh []string
	for k := range notHashed {
		nh = append(nh, k)
	}
	sort.Strings(nh)
	run.Extra["listed_fields_not_covered_by_ComputeHash"] = nh
	run.Assumptions = []string{
		"received-block path = JSON decode + ComputeProperties (datastore.FromJSON) then ComputeHash/Validate; msgpack framing not exercised",
		"for a field inside a transaction the plain variant may be caught by that transaction's own hash/output-hash check (ValidateWrtTimeForBlock), which every verifier runs; the consistent variant must change the block hash",
		"descriptive magic-block node fields (host, port, description, status ...), tickets, RoundTimeoutCount, LatestFinalizedMagicBlock*, RunningTxnCount, ChainID, Version, txn Signature/Status/ChainID are not in the statement's list: enumerated and recorded, nothing demanded",
	}
	listOutcomes(run)
	run.Finish()
}
