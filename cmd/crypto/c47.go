// C47: client signatures verify exactly for the signing key; client id = hash(public key).
//
// Enumerated (complete product): scheme x signing key x signed hash x verifying key x verified hash,
// plus every single-bit tampering of signature / public key / hash and a fixed list of malformed
// encodings (empty, truncated, extended, non-hex). Oracle (from the statement): the real
// SetPublicKey+Verify accepts  <=>  same key and same hash and untampered signature.
// A tampered byte string that the library decodes to the *same* group element as the original
// (non-canonical encoding) is not "another key"/"another signature"; it is counted as its own
// outcome class and not reported (reading noted in META).
package main

import (
	"context"
	"encoding/hex"
	"fmt"

	"0chain.net/chaincore/client"
	"0chain.net/core/datastore"
	"0chain.net/core/encryption"
	"0chain.net/core/memorystore"
	hbls "github.com/herumi/bls-go-binary/bls"
	"verif/lib/ev"
)

func setupClientEntity() {
	sp := memorystore.GetStorageProvider()
	em := datastore.MetadataProvider()
	em.Name = "client"
	em.Provider = client.Provider
	em.Store = sp
	datastore.RegisterEntityMetadata("client", em)
}

// sameBLSSig / sameBLSKey: does the tampered encoding decode to the same group element?
func sameBLSSig(a, b string) bool {
	var x, y hbls.Sign
	if x.DeserializeHexStr(a) != nil || y.DeserializeHexStr(b) != nil {
		return false
	}
	return x.IsEqual(&y)
}

func sameBLSKey(a, b string) bool {
	var x, y hbls.PublicKey
	if x.DeserializeHexStr(a) != nil || y.DeserializeHexStr(b) != nil {
		return false
	}
	return x.IsEqual(&y)
}

func c47() {
	run := ev.Start("C47")
	setupClientEntity()
	nKeys := run.Pick(3, 4)
	nHashes := run.Pick(3, 4)
	schemes := []string{encryption.SignatureSchemeEd25519, encryption.SignatureSchemeBls0chain}
	run.Rule = "complete product scheme x signing key x signed hash x (verifying key, verified hash); every single-bit flip of signature, public key and hash; malformed encodings; client-id clauses over every key and every id variant. distinct = (scheme, case class, result class)"
	run.Bounds["schemes"] = schemes
	run.Bounds["keys_per_scheme"] = nKeys
	run.Bounds["hashes"] = nHashes
	run.Bounds["bit_flips"] = "every bit of signature, public key, hash"

	for _, scheme := range schemes {
		var keys []keyPair
		var hashes []string
		for i := 0; i < nKeys; i++ {
			keys = append(keys, detKey(scheme, i))
		}
		for i := 0; i < nHashes; i++ {
			hashes = append(hashes, msgHash(i))
		}
		client.SetClientSignatureScheme(scheme)
		for ki, kp := range keys {
			sg := signer(kp)
			if sg.GetPublicKey() != kp.Pub {
				run.Violation("C47:ReadKeys:"+scheme+":public-key-changed", fmt.Sprintf("ReadKeys then GetPublicKey returned %s for %s", sg.GetPublicKey(), kp.Pub), kp)
			}
			for hi, h := range hashes {
				sig, err := sg.Sign(h)
				if err != nil {
					run.Violation("C47:Sign:"+scheme+":error", err.Error(), map[string]any{"key": kp, "hash": h})
					continue
				}
				// signing also accepts the raw hash bytes; both forms must give the same signature
				raw, _ := hex.DecodeString(h)
				if sig2, err := sg.Sign(raw); err != nil || sig2 != sig {
					run.Violation("C47:Sign:"+scheme+":raw-vs-hex-differ", "Sign(hex) != Sign(raw bytes)", map[string]any{"key": kp, "hash": h})
				}
				rep := func(extra map[string]any) map[string]any {
					m := map[string]any{"scheme": scheme, "signing_key": kp, "signed_hash": h, "signature": sig}
					for k, v := range extra {
						m[k] = v
					}
					return m
				}
				// 1. all (verifying key, verified hash) pairs
				for kj, vk := range keys {
					for hj, vh := range hashes {
						res := verifyWith(scheme, vk.Pub, sig, vh)
						run.Add(0, 0, 1)
						want := ki == kj && hi == hj
						cls := "other-key"
						if ki == kj && hi != hj {
							cls = "other-hash"
						} else if ki != kj && hi != hj {
							cls = "other-key-and-hash"
						} else if want {
							cls = "matching"
						}
						run.Outcome(scheme + "/" + cls + "/" + res)
						if want && res != "ok" {
							run.Violation("C47:Verify:"+scheme+":matching-key-rejected", "signature does not verify under the signing key and hash: "+res, rep(nil))
						}
						if !want && res == "ok" {
							run.Violation("C47:Verify:"+scheme+":"+cls+"-accepted", fmt.Sprintf("signature verifies under %s", cls), rep(map[string]any{"verify_key": vk.Pub, "verify_hash": vh}))
						}
					}
				}
				if ki == 0 && hi == 0 {
					run.Sample(rep(nil))
				}
				// 2. every single-bit flip of the signature
				for bit := 0; bit < len(sig)*4; bit++ {
					ts := flipBit(sig, bit)
					res := verifyWith(scheme, kp.Pub, ts, h)
					run.Add(0, 0, 1)
					cls := "sig-bitflip"
					if res == "ok" && scheme == encryption.SignatureSchemeBls0chain && sameBLSSig(ts, sig) {
						run.Outcome(scheme + "/sig-bitflip-same-element/ok")
						continue
					}
					run.Outcome(scheme + "/" + cls + "/" + res)
					if res == "ok" {
						run.Violation("C47:Verify:"+scheme+":tampered-signature-accepted", fmt.Sprintf("signature with bit %d flipped verifies", bit), rep(map[string]any{"tampered_signature": ts}))
					}
				}
				// 3. every single-bit flip of the public key
				for bit := 0; bit < len(kp.Pub)*4; bit++ {
					tk := flipBit(kp.Pub, bit)
					res := verifyWith(scheme, tk, sig, h)
					run.Add(0, 0, 1)
					if res == "ok" && scheme == encryption.SignatureSchemeBls0chain && sameBLSKey(tk, kp.Pub) {
						run.Outcome(scheme + "/key-bitflip-same-element/ok")
						continue
					}
					run.Outcome(scheme + "/key-bitflip/" + res)
					if res == "ok" {
						run.Violation("C47:Verify:"+scheme+":tampered-key-accepted", fmt.Sprintf("verifies under the public key with bit %d flipped", bit), rep(map[string]any{"tampered_key": tk}))
					}
				}
				// 4. every single-bit flip of the hash
				for bit := 0; bit < len(h)*4; bit++ {
					th := flipBit(h, bit)
					res := verifyWith(scheme, kp.Pub, sig, th)
					run.Add(0, 0, 1)
					run.Outcome(scheme + "/hash-bitflip/" + res)
					if res == "ok" {
						run.Violation("C47:Verify:"+scheme+":tampered-hash-accepted", fmt.Sprintf("verifies for the hash with bit %d flipped", bit), rep(map[string]any{"tampered_hash": th}))
					}
				}
				// 5. malformed encodings of each of the three inputs
				type mal struct{ name, sig, key, hash string }
				var mals []mal
				for _, m := range []struct{ n, v string }{
					{"empty", ""}, {"truncated", sig[:len(sig)-2]}, {"extended", sig + "00"}, {"odd-hex", sig[:len(sig)-1]}, {"non-hex", "zz" + sig[2:]}, {"all-zero", zeros(len(sig))},
				} {
					mals = append(mals, mal{"sig-" + m.n, m.v, kp.Pub, h})
				}
				for _, m := range []struct{ n, v string }{
					{"empty", ""}, {"truncated", kp.Pub[:len(kp.Pub)-2]}, {"extended", kp.Pub + "00"}, {"odd-hex", kp.Pub[:len(kp.Pub)-1]}, {"non-hex", "zz" + kp.Pub[2:]}, {"all-zero", zeros(len(kp.Pub))},
				} {
					mals = append(mals, mal{"key-" + m.n, sig, m.v, h})
				}
				for _, m := range []struct{ n, v string }{
					{"empty", ""}, {"truncated", h[:len(h)-2]}, {"extended", h + "00"}, {"odd-hex", h[:len(h)-1]}, {"non-hex", "zz" + h[2:]}, {"all-zero", zeros(len(h))},
				} {
					mals = append(mals, mal{"hash-" + m.n, sig, kp.Pub, m.v})
				}
				for _, m := range mals {
					res := verifyWith(scheme, m.key, m.sig, m.hash)
					run.Add(0, 0, 1)
					run.Outcome(scheme + "/" + m.name + "/" + res)
					if res == "ok" {
						run.Violation("C47:Verify:"+scheme+":malformed-"+m.name+"-accepted", "malformed input accepted", rep(map[string]any{"case": m.name, "sig": m.sig, "key": m.key, "hash": m.hash}))
					}
				}
				// 6. the same through client.Client (the object that verifies in the node)
				for kj, vk := range keys {
					c := client.NewClient()
					if err := c.SetPublicKey(vk.Pub); err != nil {
						run.Violation("C47:Client.SetPublicKey:"+scheme+":valid-key-rejected", err.Error(), vk)
						continue
					}
					ok, err := c.Verify(sig, h)
					run.Add(0, 0, 1)
					run.Outcome(fmt.Sprintf("%s/client-verify/%v/%v", scheme, ki == kj, ok && err == nil))
					if (ok && err == nil) != (ki == kj) {
						run.Violation("C47:Client.Verify:"+scheme+":wrong-verdict", fmt.Sprintf("Client.Verify = %v,%v for same-key=%v", ok, err, ki == kj), rep(map[string]any{"verify_key": vk.Pub}))
					}
				}
			}
		}

		// client id == hash(public key), through every way the repository derives or checks it
		ids := map[string]string{}
		for _, kp := range keys {
			pb, _ := hex.DecodeString(kp.Pub)
			ids[kp.Pub] = refHash(pb)
		}
		for _, kp := range keys {
			want := ids[kp.Pub]
			bad := func(site, got string) {
				run.Violation("C47:"+site+":"+scheme+":id-not-hash-of-public-key", fmt.Sprintf("%s gives id %q, hash(public key) = %q", site, got, want), kp)
			}
			if id, err := client.GetIDFromPublicKey(kp.Pub); err != nil || id != want {
				bad("GetIDFromPublicKey", id)
			}
			c := client.NewClient()
			_ = c.SetPublicKey(kp.Pub)
			if c.ID != want {
				bad("Client.SetPublicKey", c.ID)
			}
			c2 := client.NewClient()
			c2.PublicKey = kp.Pub
			c2.ID = "preset-wrong-id"
			_ = c2.ComputeProperties()
			if c2.ID != want {
				bad("Client.ComputeProperties", c2.ID)
			}
			c3 := client.NewClient()
			_ = c3.SetSignatureScheme(signer(kp))
			if c3.ID != want {
				bad("Client.SetSignatureScheme", c3.ID)
			}
			if cl := c.Clone(); cl.ID != want || cl.PublicKey != kp.Pub {
				bad("Client.Clone", cl.ID)
			}
			run.Add(0, 0, 5)
			// Validate: accepts exactly id == hash(key); id variants: every other key's id, each
			// bit-class flip, empty, upper case
			variants := map[string]string{"own": want, "empty": "", "flip-first": flipBit(want, 0), "flip-last": flipBit(want, 255), "truncated": want[:62]}
			for _, other := range keys {
				if other.Pub != kp.Pub {
					variants["id-of-"+other.Pub[:8]] = ids[other.Pub]
				}
			}
			for name, id := range variants {
				cv := client.NewClient()
				_ = cv.SetPublicKey(kp.Pub)
				cv.ID = id
				err := cv.Validate(context.Background())
				run.Add(0, 0, 1)
				cls := "foreign-id"
				if id == want {
					cls = "own-id"
				}
				run.Outcome(fmt.Sprintf("%s/client-validate/%s/%v", scheme, cls, err == nil))
				if (err == nil) != (id == want) {
					run.Violation("C47:Client.Validate:"+scheme+":"+cls+"-wrong-verdict", fmt.Sprintf("Validate(id variant %s) = %v", name, err), map[string]any{"key": kp, "id": id})
				}
				e2 := encryption.VerifyPublicKeyClientID(kp.Pub, id)
				run.Add(0, 0, 1)
				run.Outcome(fmt.Sprintf("%s/VerifyPublicKeyClientID/%s/%v", scheme, cls, e2 == nil))
				if (e2 == nil) != (id == want) {
					run.Violation("C47:VerifyPublicKeyClientID:"+scheme+":"+cls+"-wrong-verdict", fmt.Sprintf("VerifyPublicKeyClientID(id variant %s) = %v", name, e2), map[string]any{"key": kp, "id": id})
				}
			}
		}
	}
	c47Sequences(run)
	run.Assumptions = []string{
		"after a key-setting operation that returned an error the object's state is not defined by the property; only 'Verify never accepts a signature of a key other than the reported one' is compared there",
		"keys and hashes come from a fixed alphabet; the cryptographic claim for all keys is not enumerable and not claimed",
		"a tampered byte string that decodes to the same group element as the original is not counted as another key/signature",
		"a Go panic inside Verify (ed25519 with a wrong-length public key) is counted as a rejection and listed as its own outcome class",
	}
	listOutcomes(run)
	run.Finish()
}

func zeros(n int) string {
	b := make([]byte, n)
	for i := range b {
		b[i] = '0'
	}
	return string(b)
}
