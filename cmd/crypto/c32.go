// C32: batched (aggregate) signature checks agree with individual checks.
//
// Enumerated: n <= 3 (4 thorough) triples (key, message, signature) with key in {k0,k1} and message in
// {m0,m1} (so keys and messages repeat), every batch size 1..n, and three complete families of
// transformations of the signature vector starting from the all-valid vector:
//
//	offset : s_i + e_i*delta for every e in {-1,0,+1}^n (delta a fixed G1 element; contains every
//	         cancelling pattern such as s1+delta, s2-delta and every non-cancelling one)
//	perm   : s_pi(i) for every permutation pi (signatures swapped between entries)
//	replace: per entry one of {valid, signed by the other key, signed over the other message,
//	         first bit of the encoding flipped}, all 4^n combinations
//
// Oracle (statement): aggregate Verify accepts  <=>  every individual real Verify(key_i, s_i, m_i) accepts.
// The same oracle is applied through the two call sites of the statement: chain.VerifyTickets and
// miner ValidateTransactions (c32_sites.go).
package main

import (
	"fmt"
	"runtime"
	"sync"

	"0chain.net/core/encryption"
	hbls "github.com/herumi/bls-go-binary/bls"
	"verif/lib/ev"
)

const blsScheme = encryption.SignatureSchemeBls0chain

// sigAdd returns sig + e*delta as hex (e in {-1,0,1}), computed with the BLS library.
func sigAdd(sig string, delta *hbls.G1, e int) string {
	if e == 0 {
		return sig
	}
	var s hbls.Sign
	if err := s.DeserializeHexStr(sig); err != nil {
		ev.Fatal("sigAdd: %v", err)
	}
	var out hbls.G1
	if e > 0 {
		hbls.G1Add(&out, hbls.CastFromSign(&s), delta)
	} else {
		hbls.G1Sub(&out, hbls.CastFromSign(&s), delta)
	}
	return hbls.CastToSign(&out).SerializeToHexStr()
}

type verifyCache struct{ m sync.Map }

// individual verification on the real code, memoised on identical inputs (a pure function)
func (c *verifyCache) ok(pub, sig, hash string) bool {
	k := pub + "|" + sig + "|" + hash
	if v, ok := c.m.Load(k); ok {
		return v.(bool)
	}
	r := verifyWith(blsScheme, pub, sig, hash) == "ok"
	c.m.Store(k, r)
	return r
}

// aggregateAPI drives the real aggregate scheme the way both call sites do.
func aggregateAPI(pubs, sigs, hashes []string, batch int) (res string) {
	defer func() {
		if r := recover(); r != nil {
			res = "panic"
		}
	}()
	n := len(pubs)
	agg := encryption.GetAggregateSignatureScheme(blsScheme, n, batch)
	for i := 0; i < n; i++ {
		ss := encryption.NewBLS0ChainScheme()
		if err := ss.SetPublicKey(pubs[i]); err != nil {
			return "reject:setkey"
		}
		if err := agg.Aggregate(ss, i, sigs[i], hashes[i]); err != nil {
			return "reject:aggregate-error"
		}
	}
	ok, err := agg.Verify()
	if err != nil || !ok {
		return "reject:verify"
	}
	return "accept"
}

// transformation of a signature vector
type xform struct {
	Family string
	Code   []int
}

func allVectors(n, base int) [][]int {
	out := [][]int{{}}
	for i := 0; i < n; i++ {
		var nx [][]int
		for _, p := range out {
			for v := 0; v < base; v++ {
				nx = append(nx, append(append([]int{}, p...), v))
			}
		}
		out = nx
	}
	return out
}

func allPerms(n int) [][]int {
	var out [][]int
	var rec func(p []int, used int)
	rec = func(p []int, used int) {
		if len(p) == n {
			out = append(out, append([]int{}, p...))
			return
		}
		for i := 0; i < n; i++ {
			if used&(1<<uint(i)) == 0 {
				rec(append(p, i), used|1<<uint(i))
			}
		}
	}
	rec(nil, 0)
	return out
}

func xforms(n int) []xform {
	var out []xform
	for _, v := range allVectors(n, 3) {
		e := make([]int, n)
		for i := range v {
			e[i] = v[i] - 1
		}
		out = append(out, xform{"offset", e})
	}
	for _, p := range allPerms(n) {
		out = append(out, xform{"perm", p})
	}
	for _, v := range allVectors(n, 4) {
		out = append(out, xform{"replace", v})
	}
	return out
}

// class names the shape of a transformation for violation keys / outcome classes
func (x xform) class() string {
	switch x.Family {
	case "offset":
		sum, nz := 0, 0
		for _, e := range x.Code {
			sum += e
			if e != 0 {
				nz++
			}
		}
		switch {
		case nz == 0:
			return "identity"
		case sum == 0 && nz == 2:
			return "cancelling-pair"
		case sum == 0:
			return "cancelling-set"
		default:
			return "offset-non-cancelling"
		}
	case "perm":
		for i, p := range x.Code {
			if p != i {
				return "swapped-signatures"
			}
		}
		return "identity"
	default:
		for _, r := range x.Code {
			if r != 0 {
				return "replaced"
			}
		}
		return "identity"
	}
}

type c32world struct {
	keys   []keyPair
	msgs   []string
	sigOf  [][]string // [key][msg]
	delta  *hbls.G1
	vcache verifyCache
}

func newC32World() *c32world {
	w := &c32world{}
	for i := 0; i < 2; i++ {
		w.keys = append(w.keys, detKey(blsScheme, i))
		w.msgs = append(w.msgs, msgHash(i))
	}
	for _, k := range w.keys {
		sg := signer(k)
		var row []string
		for _, m := range w.msgs {
			s, err := sg.Sign(m)
			if err != nil {
				ev.Fatal("sign: %v", err)
			}
			row = append(row, s)
		}
		w.sigOf = append(w.sigOf, row)
	}
	var d hbls.G1
	if err := d.HashAndMapTo([]byte("verif-delta")); err != nil {
		ev.Fatal("delta: %v", err)
	}
	w.delta = &d
	return w
}

// apply builds the transformed signature vector for entries (ki[i], mi[i]).
func (w *c32world) apply(ki, mi []int, x xform) []string {
	n := len(ki)
	out := make([]string, n)
	for i := 0; i < n; i++ {
		valid := w.sigOf[ki[i]][mi[i]]
		switch x.Family {
		case "offset":
			out[i] = sigAdd(valid, w.delta, x.Code[i])
		case "perm":
			j := x.Code[i]
			out[i] = w.sigOf[ki[j]][mi[j]]
		case "replace":
			switch x.Code[i] {
			case 0:
				out[i] = valid
			case 1:
				out[i] = w.sigOf[1-ki[i]][mi[i]]
			case 2:
				out[i] = w.sigOf[ki[i]][1-mi[i]]
			case 3:
				out[i] = flipBit(valid, 0)
			}
		}
	}
	return out
}

func c32() {
	run := ev.Start("C32")
	w := newC32World()
	maxN := run.Pick(3, 4)
	run.Rule = "all n<=N entry vectors over 2 keys x 2 messages; all batch sizes 1..n; all signature-vector transformations of three families (offset {-1,0,+1}^n * delta, all permutations, replace 4^n); distinct = (site, transformation class, all-individually-valid, aggregate result)"
	run.Bounds["max_entries"] = maxN
	run.Bounds["keys"] = 2
	run.Bounds["messages"] = 2
	run.Bounds["batch_sizes"] = "1..n"
	run.Bounds["families"] = []string{"offset 3^n", "perm n!", "replace 4^n"}

	type job struct {
		n      int
		ki, mi []int
	}
	var jobs []job
	for n := 1; n <= maxN; n++ {
		for _, kv := range allVectors(n, 2) {
			for _, mv := range allVectors(n, 2) {
				jobs = append(jobs, job{n, kv, mv})
			}
		}
	}
	xf := map[int][]xform{}
	for n := 1; n <= maxN; n++ {
		xf[n] = xforms(n)
	}
	// violations are collected and reported in enumeration order (smallest case first), so that
	// the replay written for a key is the minimal case and the run is deterministic
	type vio struct {
		order     int
		key, what string
		replay    map[string]any
	}
	var mu sync.Mutex
	var vios []vio
	var wg sync.WaitGroup
	// the two call sites run next to the API enumeration (each sequential on its own chain object)
	tc, mcs, batches := c32Chains(run)
	var sites sync.WaitGroup
	sites.Add(2)
	go func() { defer sites.Done(); c32Tickets(run, w, tc) }()
	go func() { defer sites.Done(); c32Txns(run, w, mcs, batches) }()
	ch := make(chan int)
	workers := runtime.NumCPU()
	for wk := 0; wk < workers; wk++ {
		wg.Add(1)
		go func() {
			defer wg.Done()
			for ji := range ch {
				j := jobs[ji]
				pubs := make([]string, j.n)
				hashes := make([]string, j.n)
				for i := 0; i < j.n; i++ {
					pubs[i] = w.keys[j.ki[i]].Pub
					hashes[i] = w.msgs[j.mi[i]]
				}
				for xi, x := range xf[j.n] {
					sigs := w.apply(j.ki, j.mi, x)
					cls := sigClass(x, sigs, w.apply(j.ki, j.mi, xform{"perm", identity(j.n)}))
					allValid := true
					for i := 0; i < j.n; i++ {
						if !w.vcache.ok(pubs[i], sigs[i], hashes[i]) {
							allValid = false
						}
					}
					for b := 1; b <= j.n; b++ {
						res := aggregateAPI(pubs, sigs, hashes, b)
						run.Add(0, 0, 1)
						run.Outcome(fmt.Sprintf("api/%s/valid=%v/%s", cls, allValid, res))
						if (res == "accept") != allValid {
							key := "C32:aggregate-verify:" + cls
							what := "aggregate Verify accepts although an individual signature is invalid"
							if allValid {
								key = "C32:aggregate-verify:rejects-all-valid:" + cls
								what = "aggregate Verify rejects although every individual signature is valid"
							}
							mu.Lock()
							vios = append(vios, vio{ji*100000 + xi*10 + b, key,
								fmt.Sprintf("%s: n=%d keys=%v msgs=%v batch=%d %s=%v result=%s", what, j.n, j.ki, j.mi, b, x.Family, x.Code, res),
								map[string]any{"site": "BLS0ChainAggregateSignatureScheme", "public_keys": pubs, "hashes": hashes, "signatures": sigs, "batch_size": b, "transformation": x, "delta": hbls.CastToSign(w.delta).SerializeToHexStr()}})
							mu.Unlock()
						}
					}
				}
			}
		}()
	}
	for ji := range jobs {
		ch <- ji
	}
	close(ch)
	wg.Wait()
	run.Add(int64(len(jobs)), 0, 0)
	reportOrdered := func() {
		seen := map[string]int{}
		for i, v := range vios {
			if j, ok := seen[v.key]; !ok || v.order < vios[j].order {
				seen[v.key] = i
			}
		}
		var keys []string
		for k := range seen {
			keys = append(keys, k)
		}
		sortStrings(keys)
		for _, k := range keys {
			v := vios[seen[k]]
			run.Violation(v.key, v.what, v.replay)
		}
	}
	reportOrdered()
	run.Sample(map[string]any{"entries": "keys [0 1] msgs [0 0]", "transformation": xform{"offset", []int{1, -1}}, "meaning": "s1+delta, s2-delta"})

	sites.Wait()
	run.Assumptions = []string{
		"2 keys x 2 messages alphabet, one fixed delta; the claim is for this alphabet",
		"individual verification = fresh scheme, SetPublicKey, Verify on the real code (memoised on identical inputs)",
	}
	listOutcomes(run)
	run.Finish()
}
