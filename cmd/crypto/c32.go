// C32: batched (aggregate) signature checks agree with individual checks.
//
// Enumerated: n <= 3 (4 thorough) triples (key, message, signature) with key in {k0,k1} and message in
// {m0,m1} (so keys and messages repeat), every batch size 1..n, and three complete families of
// transformations of the signature vector starting from the all-valid vector:
//
//	offset : s_i + e_i*delta for every e in {-1,0,+1}^n (delta a fixed G1 element; contains every
//	         cancelling pattern such as s1+delta, s2-delta and every non-cancelling one)
//	perm   : s_pi(i) for every permutation pi (signatures swapped between entries)
//	replace: per entry one of {valid, signed by the other key, signed over the other message,
//	         first bit of the encoding flipped}, all 4^n combinations
//
// Oracle (statement): aggregate Verify accepts  <=>  every individual real Verify(key_i, s_i, m_i) accepts.
// The same oracle is applied through the two call sites of the statement: chain.VerifyTickets and
// miner ValidateTransactions (c32_sites.go).
package main

import (
	"fmt"
	"runtime"
	"sync"

	"0chain.net/core/encryption"
	hbls "github.com/herumi/bls-go-binary/bls"
	"verif/lib/ev"
)

const blsScheme = encryption.SignatureSchemeBls0chain

// sigAdd returns sig + e*delta as hex (e in {-1,0,1}), computed with the BLS library.
func sigAdd(sig string, delta *hbls.G1, e int) string {
	if e == 0 {
		return sig
	}
	var s hbls.Sign
	if err := s.DeserializeHexStr(sig); err != nil {
		ev.Fatal("sigAdd: %v", err)
	}
	var out hbls.G1
	if e > 0 {
		hbls.G1Add(&out, hbls.CastFromSign(&s), delta)
	} else {
		hbls.G1Sub(&out, hbls.CastFromSign(&s), delta)
	}
	return hbls.CastToSign(&out).SerializeToHexStr()
}

type verifyCache struct{ m sync.Map }

// individual verification on the real code, memoised on identical inputs (a pure function)
func (c *verifyCache) ok(pub, sig, hash string) bool {
	k := pub + "|" + sig + "|" + hash
	if v, ok := c.m.Load(k); ok {
		return v.(bool)
	}
	r := verifyWith(blsScheme, pub, sig, hash) == "ok"
	c.m.Store(k, r)
	return r
}

// aggregateAPI drives the real aggregate scheme the way both call sites do.
func aggregateAPI(pubs, sigs, hashes []string, batch int) (res string) {
	defer func() {
		if r := recover(); r != nil {
			res = "panic"
		}
	}()
	n := len(pubs)
	agg := encryption.GetAggregateSignatureScheme(blsScheme, n, batch)
	for i := 0; i < n; i++ {
		ss := encryption.NewBLS0ChainScheme()
		if err := ss.SetPublicKey(pubs[i]); err != nil {
			return "reject:setkey"
		}
		if err := agg.Aggregate(ss, i, sigs[i], hashes[i]); err != nil {
			return "reject:aggregate-error"
		}
	}
	ok, err := agg.Verify()
	if err != nil || !ok {
		return "reject:verify"
	}
	return "accept"
}

// transformation of a signature vector
type xform struct {
	Family string
	Code   []int
}

func allVectors(n, base int) [][]int {
	out := [][]int{{}}
	for i := 0; i < n; i++ {
		var nx [][]int
		for _, p := range out {
			for v := 0; v < base; v++ {
				nx = append(nx, append(append([]int{}, p...), v))
			}
		}
		out = nx
	}
	return out
}

func allPerms(n int) [][]int {
	var out [][]int
	var rec func(p []int, used int)
	rec = func(p []int, used int) {
		if len(p) == n {
			out = append(out, append([]int{}, p...))
			return
		}
		for i := 0; i < n; i++ {
			if used&(1<<uint(i)) == 0 {
				rec(append(p, i), used|1<<uint(i))
			}
		}
	}
	rec(nil, 0)
	return out
}

func xforms(n int) []xform {
	var out []xform
	for _, v := range allVectors(n, 3) {
		e := make([]int, n)
		for i := range v {
			e[i] = v[i] - 1
		}
		out = append(out, xform{"offset", e})
	}
	for _, p := range allPerms(n) {
		out = append(out, xform{"perm", p})
	}
	for _, v := range allVectors(n, 4) {
		out = append(out, xform{"replace", v})
	}
	return out
}

// class names the shape of a transformation for violation keys / outcome classes
func (x xform) class() string {
	switch x.Family {
	case "offset":
		sum, nz := 0, 0
		for _, e := range x.Code {
			sum += e
			if e != 0 {
				nz++
			}
		}
		switch {
		case nz == 0:
			return "identity"
		case sum == 0 && nz == 2:
			return "cancelling-pair"
		case sum == 0:
			return "cancelling-set"
		default:
			return "offset-non-cancelling"
		}
	case "perm":
		for i, p := range x.Code {
			if p != i {
				return "swapped-signatures"
			}
		}
		return "identity"
	default:
		for _, r := range x.Code {
			if r != 0 {
				return "replaced"
			}
		}
		return "identity"
	}
}

type c32world struct {
	keys   []keyPair
	msgs   []string
	sigOf  [][]string // [key][msg]
	delta  *hbls.G1
	vcache verifyCache
}

func newC32World() *c32world {
	w := &c32world{}
	for i := 0; i < 2; i++ {
		w.keys = append(w.keys, detKey(blsScheme, i))
		w.msgs = append(w.msgs, msgHash(i))
	}
	for _, k := range w.keys {
		sg := signer(k)
		var row []string
		for _, m := range w.msgs {
			s, err := sg.Sign(m)
			if err != nil {
				ev.Fatal("sign: %v", err)
			}
			row = append(row, s)
		}
		w.sigOf = append(w.sigOf, row)
	}
	var d hbls.G1
	if err := d.HashAndMapTo([]byte("verif-delta")); err != nil {
		ev.Fatal("delta: %v", err)
	}
	w.delta = &d
	return w
}

// apply builds the transformed signature vector for entries (ki[i], mi[i]).
func (w *c32world) apply(ki, mi []int, x xform) []string {
	n := len(ki)
	out := make([]string, n)
	for i := 0; i < n; i++ {
		valid := w.sigOf[ki[i]][mi[i]]
		switch x.Family {
		case "offset":
			out[i] = sigAdd(valid, w.delta, x.Code[i])
		case "perm":
			j := x.Code[i]
			out[i] = w.sigOf[ki[j]][mi[j]]
		case "replace":
			switch x.Code[i] {
			case 0:
				out[i] = valid
			case 1:
				out[i] = w.sigOf[1-ki[i]][mi[i]]
			case 2:
				out[i] = w.sigOf[ki[i]][1-mi[i]]
			case 3:
				out[i] = flipBit(valid, 0)
			}
		}
	}
	return out
}

func c32() {
	run := ev.Start("C32")
	w := newC32World()
	maxN := run.Pick(3, 4)
	run.Rule = "all n<=N entry vectors over 2 keys x 2 messages; all batch sizes 1..n; all signature-vector transformations of three families (offset {-1,0,+1}^n * delta, all permutations, replace 4^n); distinct = (site, transformation class, all-individually-valid, aggregate result)"
	run.Bounds["max_entries"] = maxN
	run.Bounds["keys"] = 2
	run.Bounds["messages"] = 2
	run.Bounds["batch_sizes"] = "1..n"
	run.Bounds["families"] = []string{"offset 3^n", "perm n!", "replace 4^n"}

	type job struct {
		n      int
		ki, mi []int
	}
	var jobs []job
	for n := 1; n <= maxN; n++ {
		for _, kv := range allVectors(n, 2) {
			for _, mv := range allVectors(n, 2) {
				jobs = append(jobs, job{n, kv, mv})
			}
		}
	}
	xf := map[int][]xform{}
	for n := 1; n <= maxN; n++ {
		xf[n] = xforms(n)
	}
	// violations are collected and reported in enumeration order (smallest case first), so that
	// the replay written for a key is the minimal case and the run is deterministic
	type vio struct {
		order     int
		key, what string
		replay    map[string]any
	}
	var mu sync.Mutex
	var vios []vio
	var wg sync.WaitGroup
	// the two call sites run next to the API enumeration (each sequential on its own chain object)
	tc, mcs, batches := c32Chains(run)
	var sites sync.WaitGroup
	sites.Add(2)
	go func() { defer sites.Done(); c32Tickets(run, w, tc) }()
	go func() { defer sites.Done(); c32Txns(run, w, mcs, batches) }()
	ch := make(chan int)
	workers := runtime.NumCPU()
	for wk := 0; wk < workers; wk++ {
		wg.Add(1)
		go func() {
			defer wg.Done()
			for ji := range ch {
				j := jobs[ji]
				pubs := make([]string, j.n)
				hashes := make([]string, j.n)
				for i := 0; i < j.n; i++ {
					pubs[i] = w.keys[j.ki[i]].Pub
					hashes[i] = w.msgs[j.mi[i]]
				}
				for xi, x := range xf[j.n] {
					sigs := w.apply(j.ki, j.mi, x)
					cls := sigClass(x, sigs, w.apply(j.ki, j.mi, xform{"perm", identity(j.n)}))
					allValid := true
					for i := 0; i < j.n; i++ {
						if !w.vcache.ok(pubs[i], sigs[i], hashes[i]) {
							allValid = false
						}
					}
					for b := 1; b <= j.n; b++ {
						res := aggregateAPI(pubs, sigs, hashes, b)
						run.Add(0, 0, 1)
						run.Outcome(fmt.Sprintf("api/%s/valid=%v/%s", cls, allValid, res))
						if (res == "accept") != allValid {
							key := "C32:aggregate-verify:" + cls
							what := "aggregate Verify accepts although an individual signature is invalid"
							if allValid {
								key = "C32:aggregate-verify:rejects-all-valid:" + cls
								what = "aggregate Verify rejects although every individual signature is valid"
							}
							mu.Lock()
							vios = append(vios, vio{ji*100000 + xi*10 + b, key,
								fmt.Sprintf("%s: n=%d keys=%v msgs=%v batch=%d %s=%v result=%s", what, j.n, j.ki, j.mi, b, x.Family, x.Code, res),
								map[string]any{"site": "BLS0ChainAggregateSignatureScheme", "public_keys": pubs, "hashes": hashes, "signatures": sigs, "batch_size": b, "transformation": x, "delta": hbls.CastToSign(w.delta).SerializeToHexStr()}})
							mu.Unlock()
						}
					}
				}
			}
		}()
	}
	for ji := range jobs {
		ch <- ji
	}
	close(ch)
	wg.Wait()
	run.Add(int64(len(jobs)), 0, 0)
	reportOrdered := func() {
		seen := map[string]int{}
		for i, v := range vios {
			if j, ok := seen[v.key]; !ok || v.order < vios[j].order {
				seen[v.key] = i
			}
		}
		var keys []string
		for k := range seen {
			keys = append(keys, k)
		}
		sortStrings(keys)
		for _, k := range keys {
			v := vios[seen[k]]
			run.Violation(v.key, v.what, v.replay)
		}
	}
	// identity-sum prefixes (API): signatures that sum to the group identity, at every position of a
	// batch, followed by 0-2 valid entries, for every batch size (same batch and split)
	for _, ic := range identityCases(func(k, m int) string { return w.sigOf[k][m] }, false) {
		n := len(ic.ki)
		pubs, hashes := make([]string, n), make([]string, n)
		allValid := true
		for i := 0; i < n; i++ {
			pubs[i], hashes[i] = w.keys[ic.ki[i]].Pub, w.msgs[ic.mi[i]]
			if !w.vcache.ok(pubs[i], ic.sigs[i], hashes[i]) {
				allValid = false
			}
		}
		for b := 1; b <= n; b++ {
			res := aggregateAPI(pubs, ic.sigs, hashes, b)
			run.Add(0, 0, 1)
			run.Outcome(fmt.Sprintf("api/identity-sum-prefix:%s/valid=%v/%s", ic.class, allValid, res))
			if (res == "accept") != allValid {
				vios = append(vios, vio{1 << 40, "C32:aggregate-verify:identity-sum-prefix:" + ic.class,
					fmt.Sprintf("aggregate Verify = %s, all individually valid = %v: %s, batch=%d", res, allValid, ic.desc, b),
					map[string]any{"site": "BLS0ChainAggregateSignatureScheme", "public_keys": pubs, "hashes": hashes, "signatures": ic.sigs, "batch_size": b, "layout": ic.desc}})
			}
		}
	}
	run.Bounds["identity_sum_prefixes"] = "{X,-X; -X,X; identity signature; two identity signatures; X,Y,-X-Y} after 0-1 valid and before 0-2 valid entries, 2 key/message assignments, every batch size 1..n; also through VerifyTickets and ValidateTransactions"
	reportOrdered()
	run.Sample(map[string]any{"entries": "keys [0 1] msgs [0 0]", "transformation": xform{"offset", []int{1, -1}}, "meaning": "s1+delta, s2-delta"})

	sites.Wait()
	run.Assumptions = []string{
		"2 keys x 2 messages alphabet, one fixed delta; the claim is for this alphabet",
		"individual verification = fresh scheme, SetPublicKey, Verify on the real code (memoised on identical inputs)",
	}
	listOutcomes(run)
	run.Finish()
}

// identityCase is an entry vector whose invalid signatures sum to the group identity.
type identityCase struct {
	ki, mi      []int
	sigs        []string
	class, desc string
}

func g1Hex(g *hbls.G1) string { return hbls.CastToSign(g).SerializeToHexStr() }

// identityCases enumerates: [0-1 valid] + identity-sum block + [0-2 valid], for two key/message
// assignments (alternating, all the same); sameMsg forces message 0 everywhere (tickets).
func identityCases(validSig func(k, m int) string, sameMsg bool) []identityCase {
	var x, y, nx, nxy, zero hbls.G1
	if err := x.HashAndMapTo([]byte("verif-X")); err != nil {
		ev.Fatal("X: %v", err)
	}
	if err := y.HashAndMapTo([]byte("verif-Y")); err != nil {
		ev.Fatal("Y: %v", err)
	}
	hbls.G1Neg(&nx, &x)
	hbls.G1Add(&nxy, &x, &y)
	hbls.G1Neg(&nxy, &nxy)
	zero.Clear()
	blocks := []struct {
		class string
		sigs  []string
	}{
		{"pair", []string{g1Hex(&x), g1Hex(&nx)}},
		{"pair", []string{g1Hex(&nx), g1Hex(&x)}},
		{"identity-signature", []string{g1Hex(&zero)}},
		{"identity-signature", []string{g1Hex(&zero), g1Hex(&zero)}},
		{"triple", []string{g1Hex(&x), g1Hex(&y), g1Hex(&nxy)}},
	}
	var out []identityCase
	for assign := 0; assign < 2; assign++ {
		for pre := 0; pre <= 1; pre++ {
			for post := 0; post <= 2; post++ {
				for _, bl := range blocks {
					n := pre + len(bl.sigs) + post
					c := identityCase{class: bl.class}
					for i := 0; i < n; i++ {
						k, m := i%2, (i/2+i)%2
						if assign == 1 {
							k, m = 0, 0
						}
						if sameMsg {
							m = 0
						}
						c.ki, c.mi = append(c.ki, k), append(c.mi, m)
						if i >= pre && i < pre+len(bl.sigs) {
							c.sigs = append(c.sigs, bl.sigs[i-pre])
						} else {
							c.sigs = append(c.sigs, validSig(k, m))
						}
					}
					c.desc = fmt.Sprintf("%d valid, then %s block of %d signatures summing to the identity, then %d valid; keys=%v msgs=%v", pre, bl.class, len(bl.sigs), post, c.ki, c.mi)
					out = append(out, c)
				}
			}
		}
	}
	return out
}
