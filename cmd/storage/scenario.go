package main

import (
	"encoding/hex"
	"encoding/json"
	"fmt"
	"strings"
	"sync"

	cstate "0chain.net/chaincore/chain/state"
	"0chain.net/chaincore/transaction"
	"0chain.net/core/common"
	"0chain.net/core/encryption"
	"0chain.net/smartcontract/stakepool"
	"0chain.net/smartcontract/stakepool/spenum"
	"0chain.net/smartcontract/storagesc"
	"github.com/0chain/common/core/currency"
	"github.com/0chain/common/core/util"
	"verif/lib/chainsim"
	"verif/lib/world"
)

const (
	GB        = int64(1) << 30
	TU        = 20 // smart_contracts.storagesc.time_unit in (virtual) seconds
	ZCN       = currency.Coin(1e10)
	chunk     = int64(64 * 1024)
	scPrefix  = "smart_contracts.storagesc."
	allocSize = 2 * GB // data 2 + parity 1 -> 1 GiB per blobber
)

// scen is scenario "S": one real chain plus the actors of the storage contract.
type scen struct {
	w  *world.World
	B  []*world.Actor // blobbers b0..b3
	V  []*world.Actor // validators v0,v1
	As []*world.Actor // free-storage assigners a0,a1,a2 (sign markers only)
	X  *world.Actor   // a key nobody registered (forged signatures)
	O  *world.Actor   // owner of the storage and miner contracts ("scowner")

	mu         sync.Mutex
	allocID    map[string]string // tag of a root-created allocation -> id (= hash of the creating txn)
	allocOwner map[string]string // tag -> owner actor name
	types      map[string]string // trie path -> Go type of the node last inserted there
	views      []*sview          // small cache of decoded states

	freeMarkers map[string]string // free_allocation_request action name -> "<assigner id>:<nonce>"
	rootRedeemed func(rootName string) map[string]bool // markers redeemed by a root script ("rootN")
	paths       map[string]*pinfo // per explored path: what the path itself shows (see track)
}

// pinfo is what a path (root + action list) shows without consulting the contract's own records:
// the storage owner wallet's balance at its end and the (assigner, nonce) pairs of the
// free-storage markers that were accepted along it (accepted = the owner wallet was debited by
// that step).
type pinfo struct {
	ownerBal uint64
	redeemed map[string]bool
}

// blobber parameters: capacity / stake are tight for b0 so that capacity and staked-capacity
// limits are reachable with 2-3 allocations.
var blobberCap = []int64{3 * GB, 8 * GB, 8 * GB, 8 * GB}
var blobberStake = []currency.Coin{25e9, 6e10, 6e10, 6e10}
var blobberRead = []currency.Coin{1e9, 3e9 + 1, 1e9, 2e9}
var validatorStake = []currency.Coin{1e10, 1e9} // v1 is below min_stake_per_delegate: its rewards are dropped

// blobberSlash, when >= 0, overrides smart_contracts.storagesc.blobber_slash for the world about to
// be built (0 = penalties never slash the blobber's stake).
var blobberSlash = -1.0

func newScen(readPoolFraction float64) *scen {
	s := &scen{allocID: map[string]string{}, allocOwner: map[string]string{}, types: map[string]string{},
		freeMarkers: map[string]string{}, paths: map[string]*pinfo{}}
	extra := map[string]currency.Coin{}
	for i := 0; i < 4; i++ {
		a := world.DetKey(fmt.Sprintf("b%d", i))
		s.B = append(s.B, a)
		extra[a.ID] = 1e11
	}
	for i := 0; i < 2; i++ {
		a := world.DetKey(fmt.Sprintf("v%d", i))
		s.V = append(s.V, a)
		extra[a.ID] = 1e11
	}
	for i := 0; i < 3; i++ {
		s.As = append(s.As, world.DetKey(fmt.Sprintf("a%d", i)))
	}
	s.X = world.DetKey("x-unregistered")
	// the contract owner (governance key of minersc and storagesc; the wallet free storage is paid from)
	s.O = world.DetKey("scowner")
	extra[s.O.ID] = 1e12
	scOver := map[string]any{}
	if blobberSlash >= 0 {
		scOver[scPrefix+"blobber_slash"] = blobberSlash
	}
	s.w = world.New(world.Options{NumClients: 4, ExtraFund: extra, SC: merge(scOver, map[string]any{
		scPrefix + "owner_id":                        s.O.ID,
		"smart_contracts.minersc.owner_id":           s.O.ID,
		scPrefix + "time_unit":                       fmt.Sprintf("%ds", TU),
		scPrefix + "min_alloc_size":                  1024,
		scPrefix + "min_blobber_capacity":            GB,
		scPrefix + "max_challenge_completion_rounds": 3,
		scPrefix + "block_reward.trigger_period":     10,
		scPrefix + "validators_per_challenge":        2,
		scPrefix + "readpool.min_lock":               0.0,
		scPrefix + "writepool.min_lock":              0.1,
		scPrefix + "max_individual_free_allocation":  100,
		scPrefix + "max_total_free_allocation":       10000,
		scPrefix + "free_allocation_settings.data_shards":           2,
		scPrefix + "free_allocation_settings.parity_shards":         1,
		scPrefix + "free_allocation_settings.size":                  float64(allocSize),
		scPrefix + "free_allocation_settings.read_pool_fraction":    readPoolFraction,
		scPrefix + "free_allocation_settings.read_price_range.max":  1.0,
		scPrefix + "free_allocation_settings.write_price_range.max": 1.0,
	})})
	_ = 0
	for _, l := range [][]*world.Actor{s.B, s.V, s.As, {s.X, s.O}} {
		for _, a := range l {
			s.w.Actors[a.Name] = a
			s.w.ByID[a.ID] = a
		}
	}
	// typed leaf registry: remember the Go type of every node inserted in this process
	prev := cstate.VerifTap
	cstate.VerifTap = func(op, key string, obj interface{}) {
		if op == "insert" {
			p := string(util.Path(encryption.Hash(key)))
			s.mu.Lock()
			s.types[p] = fmt.Sprintf("%T", obj)
			s.mu.Unlock()
		}
		prev(op, key, obj)
	}
	return s
}

func merge(a, b map[string]any) map[string]any {
	for k, v := range a {
		b[k] = v
	}
	return b
}

func (s *scen) actor(name string) *world.Actor {
	a, ok := s.w.Actors[name]
	if !ok {
		panic("no actor " + name)
	}
	return a
}

func (s *scen) aid(tag string) string {
	s.mu.Lock()
	defer s.mu.Unlock()
	return s.allocID[tag]
}

// scCall builds a storage-contract action. input returns the payload for the state the action
// is applied to (ok=false: not applicable there).
func (s *scen) scCall(name, from, fn string, dt int64, value func(x *chainsim.Ctx) currency.Coin, fee currency.Coin, input func(x *chainsim.Ctx) (any, bool)) chainsim.Action {
	return s.call(name, from, "storagesc", fn, dt, value, fee, input)
}

func (s *scen) call(name, from, sc, fn string, dt int64, value func(x *chainsim.Ctx) currency.Coin, fee currency.Coin, input func(x *chainsim.Ctx) (any, bool)) chainsim.Action {
	return chainsim.Action{Name: name, Dt: dt, Build: func(x *chainsim.Ctx) *world.TxnSpec {
		in, ok := input(x)
		if !ok {
			return nil
		}
		f := s.actor(from)
		var v currency.Coin
		if value != nil {
			v = value(x)
		}
		return &world.TxnSpec{From: f, To: world.SCAddresses[sc], Type: transaction.TxnTypeSmartContract, Value: v, Fee: fee,
			Nonce: x.Nonce(f) + 1, Data: world.SC(fn, in), Time: x.Now}
	}}
}

func cv(v currency.Coin) func(*chainsim.Ctx) currency.Coin {
	return func(*chainsim.Ctx) currency.Coin { return v }
}

func static(in any) func(*chainsim.Ctx) (any, bool) {
	return func(*chainsim.Ctx) (any, bool) { return in, true }
}

// ---------------------------------------------------------------------------------------------
// provider registration and staking

func (s *scen) addHardforks() chainsim.Action {
	return s.call("minersc.add_hardfork(scowner,electra+demeter@1)", "scowner", "minersc", "add_hardfork", 0, nil, 0,
		static(map[string]any{"fields": map[string]string{"electra": "1", "demeter": "1"}}))
}

func (s *scen) addBlobber(i int) chainsim.Action {
	b := s.B[i]
	in := map[string]any{
		"url":      fmt.Sprintf("http://%s.example:9081", b.Name),
		"terms":    map[string]any{"read_price": blobberRead[i], "write_price": ZCN},
		"capacity": blobberCap[i],
		"stake_pool_settings": map[string]any{"delegate_wallet": s.actor("c2").ID, "num_delegates": 2, "service_charge": 0.3},
	}
	return s.scCall(fmt.Sprintf("add_blobber(%s)", b.Name), b.Name, "add_blobber", 0, nil, 0, static(in))
}

func (s *scen) addValidator(i int) chainsim.Action {
	v := s.V[i]
	in := map[string]any{
		"url":                 fmt.Sprintf("http://%s.example:10291", v.Name),
		"stake_pool_settings": map[string]any{"delegate_wallet": s.actor("c2").ID, "num_delegates": 2, "service_charge": 0.2},
	}
	return s.scCall(fmt.Sprintf("add_validator(%s)", v.Name), v.Name, "add_validator", 0, nil, 0, static(in))
}

func spReq(t spenum.Provider, id string) json.RawMessage {
	return (&stakepool.StakePoolRequest{ProviderType: t, ProviderID: id}).Encode()
}

func (s *scen) stake(from string, t spenum.Provider, prov string, v currency.Coin, fee currency.Coin) chainsim.Action {
	return s.scCall(fmt.Sprintf("stake_pool_lock(%s->%s,%d)", from, prov, v), from, "stake_pool_lock", 0, cv(v), fee, static(spReq(t, s.actor(prov).ID)))
}

func (s *scen) unstake(from string, t spenum.Provider, prov string, fee currency.Coin) chainsim.Action {
	return s.scCall(fmt.Sprintf("stake_pool_unlock(%s<-%s)", from, prov), from, "stake_pool_unlock", 0, nil, fee, static(spReq(t, s.actor(prov).ID)))
}

// unstakeOwnID: `from` unlocks from the blobber stake pool stored under its OWN client id (such a
// node exists only if something saved a stake pool under a caller id instead of a provider id).
func (s *scen) unstakeOwnID(from string) chainsim.Action {
	return s.scCall(fmt.Sprintf("stake_pool_unlock(%s<-pool-under-own-id)", from), from, "stake_pool_unlock", 0, nil, 0, static(spReq(spenum.Blobber, s.actor(from).ID)))
}

func (s *scen) collect(from string, t spenum.Provider, prov string) chainsim.Action {
	in := (&stakepool.CollectRewardRequest{ProviderId: s.actor(prov).ID, ProviderType: t}).Encode()
	return s.scCall(fmt.Sprintf("collect_reward(%s,%s)", from, prov), from, "collect_reward", 0, nil, 0, static(json.RawMessage(in)))
}

func (s *scen) kill(from, prov string) chainsim.Action {
	return s.scCall(fmt.Sprintf("kill_blobber(%s,%s)", from, prov), from, "kill_blobber", 0, nil, 0, static(map[string]any{"provider_id": s.actor(prov).ID}))
}

func (s *scen) shutdown(from, prov string) chainsim.Action {
	return s.scCall(fmt.Sprintf("shutdown_blobber(%s,%s)", from, prov), from, "shutdown_blobber", 0, nil, 0, static(map[string]any{"provider_id": s.actor(prov).ID}))
}

// updateBlobber changes a blobber's write price / capacity through update_blobber_settings (sent
// by the delegate wallet c2).
func (s *scen) updateBlobber(prov string, writePrice currency.Coin, capacity int64) chainsim.Action {
	in := map[string]any{"id": s.actor(prov).ID}
	name := fmt.Sprintf("update_blobber_settings(%s", prov)
	if writePrice != 0 {
		in["terms"] = map[string]any{"write_price": writePrice}
		name += fmt.Sprintf(",wp=%d", writePrice)
	}
	if capacity != 0 {
		in["capacity"] = capacity
		name += fmt.Sprintf(",cap=%d", capacity)
	}
	return s.scCall(name+")", "c2", "update_blobber_settings", 0, nil, 0, static(in))
}

// dupValidator: `from` registers as a validator with the url of validator vi (already used).
func (s *scen) dupValidator(from string, vi int, fee currency.Coin) chainsim.Action {
	in := map[string]any{
		"url":                 fmt.Sprintf("http://%s.example:10291", s.V[vi].Name),
		"stake_pool_settings": map[string]any{"delegate_wallet": s.actor("c2").ID, "num_delegates": 2, "service_charge": 0.2},
	}
	return s.scCall(fmt.Sprintf("add_validator(%s,url-of-%s)", from, s.V[vi].Name), from, "add_validator", 0, nil, fee, static(in))
}

// updateBlobberURL: the delegate wallet moves the blobber to a new url and a write price its stake cannot cover.
func (s *scen) updateBlobberURL(prov string, writePrice currency.Coin, fee currency.Coin) chainsim.Action {
	in := map[string]any{"id": s.actor(prov).ID, "url": fmt.Sprintf("http://%s-new.example:9081", prov), "terms": map[string]any{"write_price": writePrice}}
	return s.scCall(fmt.Sprintf("update_blobber_settings(%s,url,wp=%d)", prov, writePrice), "c2", "update_blobber_settings", 0, nil, fee, static(in))
}

// tick lets virtual time pass: a health check of a blobber (changes only its last_health_check).
func (s *scen) tick(prov string, dt int64) chainsim.Action {
	return s.scCall(fmt.Sprintf("tick(+%ds)", dt), prov, "blobber_health_check", dt, nil, 0, static(nil))
}

// ---------------------------------------------------------------------------------------------
// allocations

func (s *scen) blobberIDs(idx []int) []string {
	var out []string
	for _, i := range idx {
		out = append(out, s.B[i].ID)
	}
	return out
}

func (s *scen) newAllocInput(owner string, blobbers []int, size int64) map[string]any {
	o := s.actor(owner)
	ids := s.blobberIDs(blobbers)
	return map[string]any{
		"data_shards": 2, "parity_shards": 1, "size": size,
		"owner_id": o.ID, "owner_public_key": o.PublicKey,
		"blobbers": ids, "blobber_auth_tickets": make([]string, len(ids)),
		"read_price_range":  map[string]any{"min": 0, "max": 7 * ZCN},
		"write_price_range": map[string]any{"min": 0, "max": 7 * ZCN},
	}
}

// newAllocRoot creates allocation `tag` in a root script and records its id.
func (s *scen) newAllocRoot(tag, owner string, blobbers []int, lock currency.Coin) chainsim.Action {
	return s.newAllocRootSized(tag, owner, blobbers, allocSize, lock)
}

func (s *scen) newAllocRootSized(tag, owner string, blobbers []int, size int64, lock currency.Coin) chainsim.Action {
	in := s.newAllocInput(owner, blobbers, size)
	return chainsim.Action{Name: fmt.Sprintf("new_allocation_request(%s,%s,%v,size=%dB,lock=%d)", tag, owner, blobbers, size, lock), Build: func(x *chainsim.Ctx) *world.TxnSpec {
		f := s.actor(owner)
		spec := world.TxnSpec{From: f, To: storagesc.ADDRESS, Type: transaction.TxnTypeSmartContract, Value: lock,
			Nonce: x.Nonce(f) + 1, Data: world.SC("new_allocation_request", in), Time: x.Now}
		id := s.w.Txn(spec).Hash
		s.mu.Lock()
		s.allocID[tag] = id
		s.allocOwner[tag] = owner
		s.mu.Unlock()
		return &spec
	}}
}

// newAlloc creates a further allocation during exploration (its id depends on the path; later
// actions find it in the state as "the owner's allocation that is not a root allocation").
func (s *scen) newAlloc(owner string, blobbers []int, size int64, lock currency.Coin, fee currency.Coin) chainsim.Action {
	return s.scCall(fmt.Sprintf("new_allocation_request(%s,%v,size=%dMiB,lock=%d)", owner, blobbers, size>>20, lock), owner, "new_allocation_request", 0, cv(lock), fee,
		static(s.newAllocInput(owner, blobbers, size)))
}

// allocRef resolves an allocation reference: a root tag, or "dyn:<owner>" = the first (by id)
// allocation of that owner in the state that is not a root allocation.
func (s *scen) allocRef(x *chainsim.Ctx, ref string) (id string, ok bool) {
	if ref == "nosuch" {
		return encryption.Hash("no such allocation"), true
	}
	if len(ref) > 4 && ref[:4] == "dyn:" {
		owner := s.actor(ref[4:]).ID
		roots := map[string]bool{}
		s.mu.Lock()
		for _, id := range s.allocID {
			roots[id] = true
		}
		s.mu.Unlock()
		v := s.view(x.N)
		for _, id := range v.allocIDs {
			if a := v.allocs[id]; a.Owner == owner && !roots[id] {
				return id, true
			}
		}
		return "", false
	}
	id = s.aid(ref)
	return id, id != ""
}

func (s *scen) lockReq(ref string) func(x *chainsim.Ctx) (any, bool) {
	return func(x *chainsim.Ctx) (any, bool) {
		id, ok := s.allocRef(x, ref)
		return map[string]any{"allocation_id": id}, ok
	}
}

func (s *scen) cancel(ref, from string, dt int64, fee currency.Coin) chainsim.Action {
	return s.scCall(fmt.Sprintf("cancel_allocation(%s,%s)%s", ref, from, dtTag(dt)), from, "cancel_allocation", dt, nil, fee, s.lockReq(ref))
}

func (s *scen) finalize(ref, from string, dt int64, fee currency.Coin) chainsim.Action {
	return s.scCall(fmt.Sprintf("finalize_allocation(%s,%s)%s", ref, from, dtTag(dt)), from, "finalize_allocation", dt, nil, fee, s.lockReq(ref))
}

func dtTag(dt int64) string {
	if dt > 1 {
		return fmt.Sprintf("@+%ds", dt)
	}
	return ""
}

func (s *scen) writePoolLock(ref, from string, v currency.Coin, fee currency.Coin) chainsim.Action {
	return s.scCall(fmt.Sprintf("write_pool_lock(%s,%s,%d)", ref, from, v), from, "write_pool_lock", 0, cv(v), fee, s.lockReq(ref))
}

// update builds update_allocation_request; fields: size (increase), extend, add / remove blobber.
func (s *scen) update(ref, from string, size int64, extend bool, add, remove int, v currency.Coin, dt int64, fee currency.Coin) chainsim.Action {
	name := fmt.Sprintf("update_allocation_request(%s,%s", ref, from)
	if size != 0 {
		if size%(1<<20) == 0 {
			name += fmt.Sprintf(",size+%dMiB", size>>20)
		} else {
			name += fmt.Sprintf(",size+%dB", size)
		}
	}
	if extend {
		name += ",extend"
	}
	if add >= 0 {
		name += fmt.Sprintf(",add=b%d", add)
	}
	if remove >= 0 {
		name += fmt.Sprintf(",remove=b%d", remove)
	}
	name += fmt.Sprintf(",value=%d)%s", v, dtTag(dt))
	return s.scCall(name, from, "update_allocation_request", dt, cv(v), fee, func(x *chainsim.Ctx) (any, bool) {
		id, ok := s.allocRef(x, ref)
		in := map[string]any{"id": id, "size": size, "extend": extend}
		if add >= 0 {
			in["add_blobber_id"] = s.B[add].ID
		}
		if remove >= 0 {
			in["remove_blobber_id"] = s.B[remove].ID
		}
		return in, ok
	})
}

// setThirdParty: the sender asks to make the allocation extendable by third parties.
func (s *scen) setThirdParty(ref, from string) chainsim.Action {
	return s.scCall(fmt.Sprintf("update_allocation_request(%s,%s,set_third_party_extendable)", ref, from), from, "update_allocation_request", 0, nil, 0, func(x *chainsim.Ctx) (any, bool) {
		id, ok := s.allocRef(x, ref)
		return map[string]any{"id": id, "set_third_party_extendable": true}, ok
	})
}

// ---------------------------------------------------------------------------------------------
// write markers (commit_connection), signed by the allocation owner, sent by the blobber

func (s *scen) commit(ref string, bi int, size int64, signer string, fee currency.Coin) chainsim.Action {
	b := s.B[bi]
	name := fmt.Sprintf("commit_connection(%s,%s,size=%+dMiB", ref, b.Name, size>>20)
	if size > -(1<<20) && size < 1<<20 {
		name = fmt.Sprintf("commit_connection(%s,%s,size=%+dB", ref, b.Name, size)
	}
	if signer != "" {
		name += ",signer=" + signer
	}
	return s.scCall(name+")", b.Name, "commit_connection", 0, nil, fee, func(x *chainsim.Ctx) (any, bool) {
		id, ok := s.allocRef(x, ref)
		if !ok {
			return nil, false
		}
		v := s.view(x.N)
		prev := ""
		ownerID := ""
		if a := v.allocs[id]; a != nil {
			ownerID = a.Owner
			for _, d := range a.Blobbers {
				if d.BlobberID == b.ID {
					prev = d.AllocationRoot
				}
			}
		} else if o, ok := s.allocOwner[ref]; ok {
			ownerID = s.actor(o).ID
		}
		owner := s.w.ByID[ownerID]
		if owner == nil {
			return nil, false
		}
		sg := owner
		if signer != "" {
			sg = s.actor(signer)
		}
		root := encryption.Hash(fmt.Sprintf("root:%s:%d:%d", prev, size, x.Now))
		hd := storagesc.VerifWriteMarkerV1HashData(root, prev, "", id, b.ID, owner.ID, size, x.Now)
		sig, err := sg.Scheme.Sign(encryption.Hash(hd))
		if err != nil {
			panic(err)
		}
		return map[string]any{
			"allocation_root": root, "prev_allocation_root": prev,
			"write_marker": map[string]any{
				"allocation_root": root, "prev_allocation_root": prev, "file_meta_root": "",
				"allocation_id": id, "size": size, "blobber_id": b.ID, "timestamp": x.Now,
				"client_id": owner.ID, "signature": sig,
			},
		}, true
	})
}

// ---------------------------------------------------------------------------------------------
// challenges

func (s *scen) genChallenge(miner int) chainsim.Action {
	m := s.w.Miners[miner]
	return chainsim.Action{Name: fmt.Sprintf("generate_challenge(%s)", m.Name), Miner: miner, Build: func(x *chainsim.Ctx) *world.TxnSpec {
		return &world.TxnSpec{From: m, To: storagesc.ADDRESS, Type: transaction.TxnTypeSmartContract, Nonce: x.Nonce(m) + 1,
			Data: world.SC("generate_challenge", map[string]any{"round": x.Rnd}), Time: x.Now}
	}}
}

// challengeResponse answers an open challenge of the allocation. which: 0 = oldest open
// challenge, 1 = newest. mode: "pass" (all validators sign success), "fail" (all sign failure),
// "one" (a single success ticket: below the pass mark), "forged" (tickets signed by a foreign
// key), "foreign" (sent by a blobber that was not challenged).
func (s *scen) challengeResponse(ref string, which int, mode string, dt int64, fee currency.Coin) chainsim.Action {
	name := fmt.Sprintf("challenge_response(%s,%s,%s)%s", ref, []string{"oldest", "newest"}[which], mode, dtTag(dt))
	return chainsim.Action{Name: name, Dt: dt, Build: func(x *chainsim.Ctx) *world.TxnSpec {
		id, ok := s.allocRef(x, ref)
		if !ok {
			return nil
		}
		ac := &storagesc.AllocationChallenges{}
		if !s.node(x.N, storagesc.VerifAllocChallengesKey(id), ac) || len(ac.OpenChallenges) == 0 {
			return nil
		}
		if which == 1 && len(ac.OpenChallenges) < 2 {
			return nil
		}
		oc := ac.OpenChallenges[0]
		if which == 1 {
			oc = ac.OpenChallenges[len(ac.OpenChallenges)-1]
		}
		ch := &storagesc.StorageChallenge{}
		if !s.node(x.N, storagesc.VerifStorageChallengeKey(oc.ID), ch) {
			return nil
		}
		from := s.w.ByID[oc.BlobberID]
		if mode == "foreign" {
			for _, b := range s.B {
				if b.ID != oc.BlobberID {
					from = b
					break
				}
			}
		}
		var tickets []*storagesc.ValidationTicket
		for i, vid := range ch.ValidatorIDs {
			if mode == "one" && i > 0 {
				break
			}
			v := s.w.ByID[vid]
			vt := &storagesc.ValidationTicket{ChallengeID: oc.ID, BlobberID: oc.BlobberID, ValidatorID: v.ID, ValidatorKey: v.PublicKey,
				Result: mode != "fail", Timestamp: x.Now}
			data := fmt.Sprintf("%v:%v:%v:%v:%v:%v", vt.ChallengeID, vt.BlobberID, vt.ValidatorID, vt.ValidatorKey, vt.Result, vt.Timestamp)
			sg := v
			if mode == "forged" {
				sg = s.X
			}
			sig, err := sg.Scheme.Sign(encryption.Hash(data))
			if err != nil {
				panic(err)
			}
			vt.Signature = sig
			tickets = append(tickets, vt)
		}
		in := &storagesc.ChallengeResponse{ID: oc.ID, ValidationTickets: tickets}
		return &world.TxnSpec{From: from, To: storagesc.ADDRESS, Type: transaction.TxnTypeSmartContract, Fee: fee, Nonce: x.Nonce(from) + 1,
			Data: world.SC("challenge_response", in), Time: x.Now}
	}}
}

// ---------------------------------------------------------------------------------------------
// read pools and read markers

func (s *scen) readPoolLock(from string, v currency.Coin, fee currency.Coin) chainsim.Action {
	return s.scCall(fmt.Sprintf("read_pool_lock(%s,%d)", from, v), from, "read_pool_lock", 0, cv(v), fee, static(map[string]any{}))
}

func (s *scen) readPoolUnlock(from string, fee currency.Coin) chainsim.Action {
	return s.scCall(fmt.Sprintf("read_pool_unlock(%s)", from), from, "read_pool_unlock", 0, nil, fee, static(map[string]any{}))
}

// readRedeem: blobber bi redeems a read marker of `client` for allocation ref with an absolute
// counter. signer "" = signed by the client; "name" = signed by that actor's key while the marker
// still carries the client's public key; "key:name" = the marker names the client's id but carries
// (and is signed with) that actor's key.
func (s *scen) readRedeem(ref string, bi int, client string, counter int64, signer string, fee currency.Coin) chainsim.Action {
	b := s.B[bi]
	name := fmt.Sprintf("read_redeem(%s,%s,%s,ctr=%d", ref, b.Name, client, counter)
	if signer != "" {
		name += ",signer=" + signer
	}
	return s.scCall(name+")", b.Name, "read_redeem", 0, nil, fee, func(x *chainsim.Ctx) (any, bool) {
		id, ok := s.allocRef(x, ref)
		if !ok {
			return nil, false
		}
		c := s.actor(client)
		owner := ""
		if a := s.view(x.N).allocs[id]; a != nil {
			owner = a.Owner
		}
		rm := &storagesc.ReadMarker{ClientID: c.ID, ClientPublicKey: c.PublicKey, BlobberID: b.ID, AllocationID: id, OwnerID: owner,
			Timestamp: x.Now, ReadCounter: counter}
		sg := c
		if len(signer) > 4 && signer[:4] == "key:" {
			sg = s.actor(signer[4:])
			rm.ClientPublicKey = sg.PublicKey
		} else if signer != "" {
			sg = s.actor(signer)
		}
		sig, err := sg.Scheme.Sign(encryption.Hash(rm.GetHashData()))
		if err != nil {
			panic(err)
		}
		rm.Signature = sig
		return &storagesc.ReadConnection{ReadMarker: rm}, true
	})
}

// ---------------------------------------------------------------------------------------------
// free storage

func (s *scen) addAssigner(from string, ai int, individual, total float64, fee currency.Coin) chainsim.Action {
	a := s.As[ai]
	in := map[string]any{"name": a.ID, "public_key": a.PublicKey, "individual_limit": individual, "total_limit": total}
	return s.scCall(fmt.Sprintf("add_free_storage_assigner(%s,%s,ind=%g,tot=%g)", from, a.Name, individual, total), from, "add_free_storage_assigner", 0, nil, fee, static(in))
}

// freeAlloc: `from` submits a free-storage marker naming `recipient`, assigner ai, signed by
// signer ("" = the assigner).
func (s *scen) freeAlloc(from, recipient string, ai int, tokens float64, nonce int64, signer string, blobbers []int, fee currency.Coin) chainsim.Action {
	a := s.As[ai]
	name := fmt.Sprintf("free_allocation_request(%s,recipient=%s,%s,tokens=%g,nonce=%d", from, recipient, a.Name, tokens, nonce)
	if signer != "" {
		name += ",signer=" + signer
	}
	ids := s.blobberIDs(blobbers)
	rc := s.actor(recipient)
	text := fmt.Sprintf("%s:%f:%d:", rc.ID, tokens, nonce)
	for _, b := range ids {
		text += b
	}
	sg := a
	if signer != "" {
		sg = s.actor(signer)
	}
	sig, err := sg.Scheme.Sign(hex.EncodeToString([]byte(text)))
	if err != nil {
		panic(err)
	}
	marker, _ := json.Marshal(map[string]any{"assigner": a.ID, "recipient": rc.ID, "free_tokens": tokens, "nonce": nonce, "signature": sig, "blobbers": ids})
	in := map[string]any{"recipient_public_key": s.actor(from).PublicKey, "marker": string(marker), "blobbers": ids}
	s.freeMarkers[name+")"] = fmt.Sprintf("%s:%d", a.ID, nonce)
	return s.scCall(name+")", from, "free_allocation_request", 0, nil, fee, static(in))
}

// track records, for the state an action is about to be applied to, what its path shows (see
// pinfo). Every worker calls Build for every transition it executes, parents before children, so
// the parent's record always exists when a child is first seen.
func (s *scen) track(x *chainsim.Ctx) {
	path := x.N.Path
	key := strings.Join(path, "\x00")
	s.mu.Lock()
	defer s.mu.Unlock()
	if _, ok := s.paths[key]; ok {
		return
	}
	bal := uint64(x.Bal(s.O.ID))
	info := &pinfo{ownerBal: bal, redeemed: map[string]bool{}}
	if len(path) == 1 && s.rootRedeemed != nil {
		// a root state: the markers its (scripted, all-successful) prefix redeemed
		for k := range s.rootRedeemed(path[0]) {
			info.redeemed[k] = true
		}
	}
	if len(path) > 1 {
		parent, ok := s.paths[strings.Join(path[:len(path)-1], "\x00")]
		if !ok {
			panic("track: no record for the parent of " + strings.Join(path, " "))
		}
		for k := range parent.redeemed {
			info.redeemed[k] = true
		}
		if mk, ok := s.freeMarkers[path[len(path)-1]]; ok && bal < parent.ownerBal {
			info.redeemed[mk] = true
		}
	}
	s.paths[key] = info
}

func (s *scen) pathInfo(path []string) *pinfo {
	s.mu.Lock()
	defer s.mu.Unlock()
	return s.paths[strings.Join(path, "\x00")]
}

// tracked wraps the actions so that every state they are applied to is recorded by track.
func (s *scen) tracked(acts []chainsim.Action) []chainsim.Action {
	out := make([]chainsim.Action, len(acts))
	for i, a := range acts {
		a := a
		b := a
		b.Build = func(x *chainsim.Ctx) *world.TxnSpec {
			s.track(x)
			return a.Build(x)
		}
		out[i] = b
	}
	return out
}

// readReuse: blobber bi redeems a FORGED marker for (client, allocation ref): it carries the
// signature of a previously redeemed marker and a counter raised by delta. from: "" = the marker
// last redeemed at this very blobber (same timestamp), "ts" = same but with the current
// timestamp, "bN" = the marker last redeemed at blobber N for the same client and allocation.
func (s *scen) readReuse(ref string, bi int, client string, delta int64, from string) chainsim.Action {
	b := s.B[bi]
	name := fmt.Sprintf("read_redeem(%s,%s,%s,ctr=last+%d,reused-signature", ref, b.Name, client, delta)
	if from != "" {
		name += ":" + from
	}
	return s.scCall(name+")", b.Name, "read_redeem", 0, nil, 2, func(x *chainsim.Ctx) (any, bool) {
		id, ok := s.allocRef(x, ref)
		if !ok {
			return nil, false
		}
		c := s.actor(client)
		v := s.view(x.N)
		find := func(blobberID string) *storagesc.ReadMarker {
			key := storagesc.VerifReadConnectionKey(blobberID, c.ID, id)
			for p, m := range v.readConns {
				if world.Tap.KeyOf(p) == key {
					return m
				}
			}
			return nil
		}
		last := find(b.ID)
		if last == nil {
			return nil, false
		}
		src := last
		if len(from) == 2 && from[0] == 'b' {
			src = find(s.B[int(from[1]-'0')].ID)
			if src == nil {
				return nil, false
			}
		}
		rm := &storagesc.ReadMarker{ClientID: c.ID, ClientPublicKey: c.PublicKey, BlobberID: b.ID, AllocationID: id, OwnerID: last.OwnerID,
			Timestamp: last.Timestamp, ReadCounter: last.ReadCounter + delta, Signature: src.Signature}
		if from == "ts" {
			rm.Timestamp = x.Now
		}
		return &storagesc.ReadConnection{ReadMarker: rm}, true
	})
}

// ---------------------------------------------------------------------------------------------
// root scripts

// rootBase: hard forks recorded, 4 blobbers and 2 validators registered and staked by c2.
func (s *scen) rootBase() []chainsim.Action {
	r := []chainsim.Action{s.addHardforks()}
	for i := range s.B {
		r = append(r, s.addBlobber(i))
	}
	for i := range s.V {
		r = append(r, s.addValidator(i))
	}
	for i, b := range s.B {
		r = append(r, s.stake("c2", spenum.Blobber, b.Name, blobberStake[i], 0))
	}
	for i, v := range s.V {
		r = append(r, s.stake("c2", spenum.Validator, v.Name, validatorStake[i], 0))
	}
	return r
}

// rootA: base + allocation A of c0 on b0,b1,b2 with 5 ZCN locked (cost 3 ZCN).
func (s *scen) rootA() []chainsim.Action {
	return append(s.rootBase(), s.newAllocRoot("A", "c0", []int{0, 1, 2}, 5*ZCN))
}

// rootAW: rootA + data written to b0 (600 MiB) and b1 (300 MiB).
func (s *scen) rootAW() []chainsim.Action {
	return append(s.rootA(), s.commit("A", 0, 600<<20, "", 0), s.commit("A", 1, 300<<20, "", 0))
}

// rootAWP: rootAW + every blobber that holds data (b0, b1) lowers its write price to a quarter:
// an extension from here moves tokens OUT of the challenge pool for every data-holding blobber.
func (s *scen) rootAWP() []chainsim.Action {
	return append(s.rootAW(), s.updateBlobber("b0", ZCN/4, 0), s.updateBlobber("b1", ZCN/4, 0))
}

// rootAO: base + allocation O of c0 on b0,b1,b2 whose size (2 GiB + 1) is NOT a multiple of the
// data shards: the per-blobber size is ceil(size/2); extending O by another non-multiple makes the
// per-blobber sizes drift from ceil(total/2).
func (s *scen) rootAO() []chainsim.Action {
	return append(s.rootBase(), s.newAllocRootSized("O", "c0", []int{0, 1, 2}, allocSize+1, 5*ZCN))
}

// rootAWM: allocation A with data on b0 only (every challenge goes to b0), one challenge passed and
// one failed: b0's pass rate at settlement is strictly between 0 and 1.
func (s *scen) rootAWM() []chainsim.Action {
	return append(s.rootA(), s.commit("A", 0, 600<<20, "", 0),
		s.genChallenge(0), s.challengeResponse("A", 0, "pass", 0, 0),
		s.genChallenge(0), s.challengeResponse("A", 0, "fail", 0, 0))
}

// rootAX: allocation A made extendable by third parties by its owner.
func (s *scen) rootAX() []chainsim.Action {
	return append(s.rootA(), s.setThirdParty("A", "c0"))
}

// rootTS: the tiny allocation T with data on b1 only, one challenge generated and failed: the next
// passed challenge of b1 takes the penalty path.
func (s *scen) rootTS() []chainsim.Action {
	return append(s.rootBase(), s.newAllocRootSized("T", "c0", []int{1, 2, 3}, 2*chunk, tinyCost),
		s.commit("T", 1, 2, "", 0), s.genChallenge(0), s.challengeResponse("T", 0, "fail", 0, 0))
}

// tinyCost is the price of allocation T: 3 blobbers x one 64 KiB chunk at 1 ZCN/GiB for one time
// unit (610351 tokens each, truncated); T is funded with exactly this amount.
const tinyCost = currency.Coin(3 * 610351)

// rootTD ("tiny, dry"): base + allocation T of c0 on b1,b2,b3 of 128 KiB (one chunk per blobber)
// funded at exactly its price, then three 1-byte write markers, each charged as a full chunk for
// the rest of the duration: the write pool is left with less than the price of one more chunk,
// so the next upload is clamped by the write pool.
func (s *scen) rootTD() []chainsim.Action {
	return append(s.rootBase(), s.newAllocRootSized("T", "c0", []int{1, 2, 3}, 2*chunk, tinyCost),
		s.commit("T", 1, 1, "", 0), s.commit("T", 2, 1, "", 0), s.commit("T", 3, 1, "", 0))
}

var _ = common.Timestamp(0)
