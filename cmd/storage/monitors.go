package main

import (
	"encoding/hex"
	"encoding/json"
	"fmt"
	"math/big"
	"sort"
	"strings"

	"0chain.net/chaincore/transaction"
	"0chain.net/core/encryption"
	"0chain.net/smartcontract/dbs/event"
	"0chain.net/smartcontract/minersc"
	"0chain.net/smartcontract/storagesc"
	"github.com/0chain/common/core/currency"
	"verif/lib/chainsim"
	"verif/lib/world"
)

// ---------------------------------------------------------------------------------------------
// helpers

type acct struct {
	Bal   uint64
	Nonce int64
	Has   bool
}

func accounts(ls []world.Leaf) map[string]acct {
	m := map[string]acct{}
	for _, l := range ls {
		if world.Tap.IsAccount(l.Path) {
			if st, ok := chainsim.DecodeAccount(l.Value); ok {
				m[l.Path] = acct{uint64(st.Balance), st.Nonce, true}
			}
		}
	}
	return m
}

func actionClass(n string) string {
	for i, c := range n {
		if c == '(' {
			return n[:i]
		}
	}
	return n
}

// sig is the stable class of a transition used in violation keys: contract function plus the
// option names of the request (no values, no ids).
func sig(s *chainsim.Step) string {
	fn := s.Txn.FunctionName
	if fn == "" {
		fn = actionClass(s.Action.Name)
	}
	var opts []string
	n := s.Action.Name
	for _, o := range []string{"size+", "extend", "add=", "remove=", "signer=", "@+", "oldest", "newest", "pass", "fail", "one", "forged", "foreign", "recipient="} {
		if strings.Contains(n, o) {
			if o == "@+" {
				o = "later"
			}
			opts = append(opts, strings.Trim(o, "=+"))
		}
	}
	if len(opts) > 0 {
		return fn + "[" + strings.Join(opts, ",") + "]"
	}
	return fn
}

// txnInput returns the "input" object of a contract call.
func txnInput(t *transaction.Transaction) map[string]any {
	var d struct {
		Input json.RawMessage `json:"input"`
	}
	if json.Unmarshal([]byte(t.TransactionData), &d) != nil {
		return nil
	}
	var m map[string]any
	if json.Unmarshal(d.Input, &m) != nil {
		return nil
	}
	return m
}

func str(m map[string]any, k string) string {
	v, _ := m[k].(string)
	return v
}

// targetAlloc is the allocation id a storage call addresses ("" when it names none).
func targetAlloc(t *transaction.Transaction) string {
	in := txnInput(t)
	if in == nil {
		return ""
	}
	switch t.FunctionName {
	case "cancel_allocation", "finalize_allocation", "write_pool_lock":
		return str(in, "allocation_id")
	case "update_allocation_request":
		return str(in, "id")
	case "commit_connection":
		if wm, ok := in["write_marker"].(map[string]any); ok {
			return str(wm, "allocation_id")
		}
	case "read_redeem":
		if rm, ok := in["read_marker"].(map[string]any); ok {
			return str(rm, "allocation_id")
		}
	}
	return ""
}

// onlyFeeAndNonce reports the first leaf change of a transition that is not the sender's
// fee/nonce or the miner contract's fee income ("" = none).
func onlyFeeAndNonce(s *chainsim.Step) string {
	pre, post := accounts(s.Pre.Leaves), accounts(s.Post.Leaves)
	fee := uint64(s.Txn.Fee)
	for _, d := range s.Diff {
		switch {
		case d.Path == s.Txn.ClientID && world.Tap.IsAccount(d.Path):
			a, b := pre[d.Path], post[d.Path]
			if b.Nonce != a.Nonce+1 || a.Bal-b.Bal != fee || b.Bal > a.Bal {
				return fmt.Sprintf("sender %d/%d -> %d/%d with fee %d", a.Bal, a.Nonce, b.Bal, b.Nonce, fee)
			}
		case d.Path == minersc.ADDRESS && world.Tap.IsAccount(d.Path):
			a, b := pre[d.Path], post[d.Path]
			if b.Bal-a.Bal != fee || b.Nonce != a.Nonce {
				return fmt.Sprintf("miner contract wallet %d -> %d with fee %d", a.Bal, b.Bal, fee)
			}
		default:
			what := world.Tap.KeyOf(d.Path)
			if world.Tap.IsAccount(d.Path) {
				what = "account " + d.Path
			}
			return fmt.Sprintf("leaf %s changed (pre %d bytes, post %d bytes)", what, len(d.Pre), len(d.Post))
		}
	}
	return ""
}

func (s *scen) harnessMonitor(st *chainsim.Step, v func(key, what string)) {
	for _, b := range s.view(st.Post).bad {
		v("HARNESS:undecodable-leaf", b)
	}
}

// outcome tags make the evidence show which success paths were reached.
func (s *scen) tagMonitor(st *chainsim.Step, v func(key, what string)) {
	if st.Err != nil {
		return
	}
	fn := st.Txn.FunctionName
	if st.Txn.Status == transaction.TxnSuccess {
		st.Tag("success:" + sig(st))
		out := st.Txn.TransactionOutput
		switch {
		case fn == "challenge_response" && strings.Contains(out, "passed"):
			st.Tag("challenge:passed")
		case fn == "challenge_response" && strings.Contains(out, "Failed"):
			st.Tag("challenge:failed")
		case fn == "commit_connection":
			// was the token move clamped (by the write pool on upload, by the blobber value on delete)?
			pre, post := s.view(st.Pre), s.view(st.Post)
			id := targetAlloc(st.Txn)
			if a, b := pre.allocs[id], post.allocs[id]; a != nil && b != nil {
				if a.WritePool > 0 && b.WritePool == 0 && b.MovedToChallenge > a.MovedToChallenge {
					st.Tag("upload:emptied-write-pool(clamped)")
				}
				if a.WritePool == 0 && b.UsedSize >= a.UsedSize && b.MovedToChallenge == a.MovedToChallenge && strings.Contains(st.Action.Name, "size=+") {
					st.Tag("upload:with-empty-write-pool(moves-0)")
				}
				for i, d := range b.Blobbers {
					if i < len(a.Blobbers) && a.Blobbers[i].Integral > 0 && d.Integral == 0 && b.MovedBack > a.MovedBack {
						st.Tag("delete:took-whole-blobber-value(clamped)")
					}
				}
			}
		case fn == "update_allocation_request" && strings.Contains(st.Action.Name, "extend"):
			pre, post := s.view(st.Pre), s.view(st.Post)
			id := targetAlloc(st.Txn)
			if a, b := pre.allocs[id], post.allocs[id]; a != nil && b != nil {
				switch {
				case b.MovedBack > a.MovedBack && b.MovedToChallenge == a.MovedToChallenge:
					st.Tag("extend:tokens-moved-out-of-challenge-pool")
				case b.MovedToChallenge > a.MovedToChallenge && b.MovedBack == a.MovedBack:
					st.Tag("extend:tokens-moved-into-challenge-pool")
				case b.MovedToChallenge > a.MovedToChallenge && b.MovedBack > a.MovedBack:
					st.Tag("extend:tokens-moved-both-ways")
				default:
					st.Tag("extend:no-challenge-pool-move")
				}
			}
		case fn == "generate_challenge":
			pre, post := s.view(st.Pre), s.view(st.Post)
			a, b := int64(0), int64(0)
			for _, x := range pre.allocs {
				for _, d := range x.Blobbers {
					a += d.TotalChallenges
				}
			}
			for _, x := range post.allocs {
				for _, d := range x.Blobbers {
					b += d.TotalChallenges
				}
			}
			if b > a {
				st.Tag("challenge:generated")
			} else {
				st.Tag("challenge:none-generated")
			}
		}
	} else {
		msg := st.Txn.TransactionOutput
		if i := strings.Index(msg, ":"); i > 0 && i < 60 {
			msg = msg[:i]
		}
		if len(msg) > 60 {
			msg = msg[:60]
		}
		st.Tag("failure:" + sig(st) + ":" + msg)
	}
}

// ---------------------------------------------------------------------------------------------
// C12: challenge pool == sum of the blobbers' outstanding values, for every allocation present;
// no challenge pool without its allocation.

func (s *scen) cpMonitor(st *chainsim.Step, v func(key, what string)) {
	if st.Err != nil {
		return
	}
	post, pre := s.view(st.Post), s.view(st.Pre)
	for _, id := range post.allocIDs {
		a := post.allocs[id]
		cp, has := post.cps[id]
		sum := new(big.Int)
		for _, d := range a.Blobbers {
			sum.Add(sum, new(big.Int).SetUint64(uint64(d.Integral)))
		}
		shape := ""
		if pa := pre.allocs[id]; pa != nil {
			// which blobber left the allocation in this transition, and was it killed?
			for _, d := range pa.Blobbers {
				found := false
				for _, e := range a.Blobbers {
					found = found || e.BlobberID == d.BlobberID
				}
				if !found {
					shape = ":removed-blobber-alive"
					if b := pre.blobbers[d.BlobberID]; b != nil && (b.Killed || b.ShutDown) {
						shape = ":removed-blobber-killed"
					}
				}
			}
		}
		if !has {
			v("C12:open-allocation-without-challenge-pool:"+sig(st)+shape, fmt.Sprintf("allocation %s has no challenge pool node", short(id)))
			continue
		}
		if sum.Cmp(new(big.Int).SetUint64(uint64(cp))) != 0 {
			// is the pre-state already off by the same amount? then report only the transition that broke it
			if pa := pre.allocs[id]; pa != nil {
				psum := new(big.Int)
				for _, d := range pa.Blobbers {
					psum.Add(psum, new(big.Int).SetUint64(uint64(d.Integral)))
				}
				pd := new(big.Int).Sub(new(big.Int).SetUint64(uint64(pre.cps[id])), psum)
				nd := new(big.Int).Sub(new(big.Int).SetUint64(uint64(cp)), sum)
				if pd.Cmp(nd) == 0 && st.Pre.Depth > 0 {
					continue
				}
			}
			v("C12:challenge-pool-differs-from-integral-sum:"+sig(st)+shape,
				fmt.Sprintf("allocation %s: challenge pool balance %d, sum of blobbers' ChallengePoolIntegralValue %s (%s)", short(id), cp, sum.String(), integrals(a)))
		}
	}
	for id, bal := range post.cps {
		if post.allocs[id] == nil {
			v("C12:challenge-pool-survives-closed-allocation:"+sig(st), fmt.Sprintf("challenge pool of %s (balance %d) exists without its allocation", short(id), bal))
		}
	}
}

func integrals(a *storagesc.VerifAlloc) string {
	var p []string
	for _, d := range a.Blobbers {
		p = append(p, fmt.Sprint(uint64(d.Integral)))
	}
	return strings.Join(p, "+")
}

// ---------------------------------------------------------------------------------------------
// C13: per blobber Allocated == sum of its sizes over open allocations, <= Capacity when an
// allocation is assigned to it; stake pool TotalOffers == sum of those allocations' offers;
// a close never fails because the offer cannot be released.

func (s *scen) capMonitor(st *chainsim.Step, v func(key, what string)) {
	if st.Err != nil {
		return
	}
	post, pre := s.view(st.Post), s.view(st.Pre)
	type agg struct {
		size, n int64
		offers  *big.Int
	}
	sum := func(w *sview) map[string]*agg {
		m := map[string]*agg{}
		for _, id := range w.allocIDs {
			for _, d := range w.allocs[id].Blobbers {
				g := m[d.BlobberID]
				if g == nil {
					g = &agg{offers: new(big.Int)}
					m[d.BlobberID] = g
				}
				g.size += d.Size
				g.n++
				g.offers.Add(g.offers, new(big.Int).SetUint64(uint64(d.Offer)))
			}
		}
		return m
	}
	want, was := sum(post), sum(pre)
	ids := map[string]bool{}
	for id := range post.blobbers {
		ids[id] = true
	}
	for id := range want {
		ids[id] = true
	}
	var sorted []string
	for id := range ids {
		sorted = append(sorted, id)
	}
	sort.Strings(sorted)
	for _, id := range sorted {
		b := post.blobbers[id]
		g := want[id]
		if g == nil {
			g = &agg{offers: new(big.Int)}
		}
		state := "alive"
		if b != nil && b.Killed {
			state = "killed"
		} else if b != nil && b.ShutDown {
			state = "shutdown"
		}
		if b == nil {
			v("C13:blobber-node-missing-while-serving:"+sig(st), fmt.Sprintf("blobber %s serves %d open allocation(s) but has no node", short(id), g.n))
			continue
		}
		// report a drift only on the transition that introduces or changes it
		preOff := int64(0)
		if pb := pre.blobbers[id]; pb != nil {
			pg := was[id]
			if pg == nil {
				pg = &agg{offers: new(big.Int)}
			}
			preOff = pb.Allocated - pg.size
		}
		if off := b.Allocated - g.size; off != 0 && (off != preOff || st.Pre.Depth == 0) {
			uneven := ""
			for _, aid := range pre.allocIDs {
				pa := pre.allocs[aid]
				serves := false
				for _, d := range pa.Blobbers {
					serves = serves || d.BlobberID == id
				}
				for _, d := range pa.Blobbers {
					if serves && d.Size != pa.Blobbers[0].Size {
						uneven = ":allocation-with-uneven-blobber-sizes"
					}
				}
			}
			v("C13:allocated-differs-from-open-allocations:"+sig(st)+":"+state+uneven,
				fmt.Sprintf("blobber %s: Allocated %d, sum of its sizes over %d open allocation(s) %d", short(id), b.Allocated, g.n, g.size))
		}
		// capacity at assignment time
		grew := g.size > 0 && (was[id] == nil || was[id].size < g.size)
		if grew && b.Allocated > b.Capacity {
			v("C13:allocated-exceeds-capacity-at-assignment:"+sig(st), fmt.Sprintf("blobber %s: Allocated %d > Capacity %d after an allocation was assigned/extended", short(id), b.Allocated, b.Capacity))
		}
		sp := post.sps["blobber:"+id]
		if sp == nil {
			if g.n > 0 {
				v("C13:stake-pool-missing-while-serving:"+sig(st), fmt.Sprintf("blobber %s serves %d allocation(s) but has no stake pool", short(id), g.n))
			}
			continue
		}
		diff := new(big.Int).Sub(new(big.Int).SetUint64(uint64(sp.TotalOffers)), g.offers)
		preDiff := new(big.Int)
		if psp := pre.sps["blobber:"+id]; psp != nil {
			pg := was[id]
			if pg == nil {
				pg = &agg{offers: new(big.Int)}
			}
			preDiff.Sub(new(big.Int).SetUint64(uint64(psp.TotalOffers)), pg.offers)
		}
		if diff.Sign() != 0 && (diff.Cmp(preDiff) != 0 || st.Pre.Depth == 0) {
			v("C13:total-offers-differ-from-open-allocations:"+sig(st)+":"+state,
				fmt.Sprintf("blobber %s: stake pool TotalOffers %d, sum of Offer() over its %d open allocation(s) %s", short(id), sp.TotalOffers, g.n, g.offers.String()))
		}
	}
	// closing can always release the offer
	fn := st.Txn.FunctionName
	if (fn == "cancel_allocation" || fn == "finalize_allocation") && st.Txn.Status != transaction.TxnSuccess &&
		strings.Contains(st.Txn.TransactionOutput, "removing offer") {
		shape := "alive"
		if a := pre.allocs[targetAlloc(st.Txn)]; a != nil {
			for _, d := range a.Blobbers {
				if b := pre.blobbers[d.BlobberID]; b != nil && (b.Killed || b.ShutDown) {
					shape = "killed-blobber-in-allocation"
				}
			}
		}
		v("C13:close-cannot-release-offer:"+fn+":"+shape, "closing the allocation failed because the blobber's offer could not be released: "+st.Txn.TransactionOutput)
	}
}

// ---------------------------------------------------------------------------------------------
// C14: close exactly once; payments on close; nothing touches a closed allocation.

func (s *scen) closeMonitor(st *chainsim.Step, v func(key, what string)) {
	if st.Err != nil {
		return
	}
	fn := st.Txn.FunctionName
	pre, post := s.view(st.Pre), s.view(st.Post)
	id := targetAlloc(st.Txn)
	ok := st.Txn.Status == transaction.TxnSuccess
	if id != "" && pre.allocs[id] == nil {
		// the allocation is closed (or never existed): the operation must fail and change nothing
		if ok {
			v("C14:operation-succeeded-on-closed-allocation:"+fn, fmt.Sprintf("%s succeeded although allocation %s does not exist (closed)", fn, short(id)))
		} else if what := onlyFeeAndNonce(st); what != "" {
			v("C14:operation-on-closed-allocation-changed-state:"+fn, what)
		} else {
			st.Tag("closed-allocation-op-rejected:" + fn)
		}
		return
	}
	if fn != "cancel_allocation" && fn != "finalize_allocation" {
		// no other function may remove an allocation
		for _, aid := range pre.allocIDs {
			if post.allocs[aid] == nil {
				v("C14:allocation-removed-by-other-function:"+fn, fmt.Sprintf("allocation %s disappeared in %s", short(aid), fn))
			}
		}
		return
	}
	a := pre.allocs[id]
	if a == nil {
		return
	}
	caller := st.Txn.ClientID
	role := "stranger"
	if caller == a.Owner {
		role = "owner"
	} else {
		for _, d := range a.Blobbers {
			if d.BlobberID == caller {
				role = "blobber"
			}
		}
	}
	when := "before-expiry"
	if a.Expiration < st.Txn.CreationDate {
		when = "after-expiry"
	} else if a.Expiration == st.Txn.CreationDate {
		when = "at-expiry"
	}
	if !ok {
		if post.allocs[id] == nil {
			v("C14:failed-close-removed-allocation:"+fn, "allocation gone after a failed close")
		}
		// an authorised caller at the right time must be able to close (a failure because an offer
		// cannot be released belongs to C13)
		rightTime := (fn == "cancel_allocation" && role == "owner" && when != "after-expiry") ||
			(fn == "finalize_allocation" && role != "stranger" && when != "before-expiry")
		if rightTime && !strings.Contains(st.Txn.TransactionOutput, "removing offer") {
			p := ""
			if a.OpenChallenges > 0 {
				p = ":open-challenge-pending"
			}
			v("C14:authorised-close-failed:"+fn+":"+role+p, fmt.Sprintf("%s by the %s %s failed: %.200s", fn, role, when, st.Txn.TransactionOutput))
		}
		return
	}
	st.Tag("close:" + fn + ":" + role + ":" + when)
	if a.OpenChallenges > 0 {
		st.Tag("close:with-open-challenge")
	}
	switch fn {
	case "cancel_allocation":
		if role != "owner" || when == "after-expiry" {
			v("C14:unauthorised-cancel:"+role+":"+when, fmt.Sprintf("cancel_allocation by %s %s succeeded", role, when))
		}
	case "finalize_allocation":
		if role == "stranger" || when == "before-expiry" {
			v("C14:unauthorised-finalize:"+role+":"+when, fmt.Sprintf("finalize_allocation by %s %s succeeded", role, when))
		}
	}
	if post.allocs[id] != nil {
		v("C14:allocation-survives-close:"+fn, "allocation node still present after a successful close")
	}
	if _, has := post.cps[id]; has {
		v("C14:challenge-pool-survives-close:"+fn, "challenge pool node still present after a successful close")
	}
	// payments
	preA, postA := accounts(st.Pre.Leaves), accounts(st.Post.Leaves)
	refund := new(big.Int).Sub(new(big.Int).SetUint64(postA[a.Owner].Bal), new(big.Int).SetUint64(preA[a.Owner].Bal))
	if caller == a.Owner {
		refund.Add(refund, new(big.Int).SetUint64(uint64(st.Txn.Fee)))
	}
	avail := new(big.Int).SetUint64(uint64(a.WritePool))
	avail.Add(avail, new(big.Int).SetUint64(uint64(pre.cps[id])))
	cost := 0.0
	for _, d := range a.Blobbers {
		cost += float64(d.WritePrice) * float64(d.Size) / float64(GB)
	}
	charge := new(big.Int)
	new(big.Float).SetFloat64(cost*pre.conf.CancellationCharge + 1).Int(charge)
	paidAll := new(big.Int)
	// what the blobbers receive beyond the challenge value they earned since their last finalized
	// challenge (time share of the outstanding value, as documented for ChallengePoolIntegralValue)
	// is cancellation charge; its total must stay within the configured charge
	chargePaid := new(big.Int)
	pending := ""
	if a.OpenChallenges > 0 {
		pending = ":open-challenge-pending"
	}
	now := st.Txn.CreationDate
	for _, d := range a.Blobbers {
		var p0, p1 currency.Coin
		if sp := pre.sps["blobber:"+d.BlobberID]; sp != nil {
			_, p0 = spTotals(sp)
		}
		if sp := post.sps["blobber:"+d.BlobberID]; sp != nil {
			_, p1 = spTotals(sp)
		}
		paid := new(big.Int).Sub(new(big.Int).SetUint64(uint64(p1)), new(big.Int).SetUint64(uint64(p0)))
		earned := new(big.Int)
		if now > d.LatestFinalized {
			earned.SetUint64(uint64(d.Integral))
			if span := a.Expiration - d.LatestFinalized; span > 0 && now-d.LatestFinalized < span {
				earned.Mul(earned, big.NewInt(int64(now-d.LatestFinalized)))
				earned.Div(earned, big.NewInt(int64(span)))
			}
		}
		earned.Add(earned, big.NewInt(1))
		if ex := new(big.Int).Sub(paid, earned); ex.Sign() > 0 {
			chargePaid.Add(chargePaid, ex)
		}
	}
	if chargePaid.Cmp(new(big.Int).Add(charge, big.NewInt(int64(len(a.Blobbers))))) > 0 {
		v("C14:cancellation-charge-paid-exceeds-configured-charge:"+fn+pending, fmt.Sprintf("beyond the challenge value earned since their last finalized challenge the blobbers received %s in total; the configured cancellation charge is %s (%g of cost %.0f)", chargePaid, charge, pre.conf.CancellationCharge, cost))
	}
	for _, d := range a.Blobbers {
		var p0, p1 currency.Coin
		if sp := pre.sps["blobber:"+d.BlobberID]; sp != nil {
			_, p0 = spTotals(sp)
		}
		if sp := post.sps["blobber:"+d.BlobberID]; sp != nil {
			_, p1 = spTotals(sp)
		}
		paid := new(big.Int).Sub(new(big.Int).SetUint64(uint64(p1)), new(big.Int).SetUint64(uint64(p0)))
		paidAll.Add(paidAll, paid)
		limit := new(big.Int).Add(new(big.Int).SetUint64(uint64(d.Integral)), charge)
		if paid.Cmp(limit) > 0 {
			v("C14:blobber-paid-more-than-challenge-value-plus-charge:"+fn, fmt.Sprintf("blobber %s received %s on close; its outstanding challenge value was %d and the whole cancellation charge is %s", short(d.BlobberID), paid, d.Integral, charge))
		}
	}
	if paidAll.Sign() > 0 {
		st.Tag("close:blobbers-paid")
	}
	total := new(big.Int).Add(refund, paidAll)
	switch total.Cmp(avail) {
	case 1:
		v("C14:close-pays-out-more-than-pools-hold:"+fn, fmt.Sprintf("owner refund %s + blobber payments %s > write pool %d + challenge pool %d", refund, paidAll, a.WritePool, pre.cps[id]))
	case -1:
		shape := "all-blobbers-rewardable"
		for _, d := range a.Blobbers {
			if sp := pre.sps["blobber:"+d.BlobberID]; sp != nil {
				if stake, _ := spTotals(sp); sp.Killed {
					shape = "killed-blobber"
				} else if stake < 1e10 {
					shape = "blobber-below-min-stake"
				}
			}
		}
		v("C14:close-does-not-refund-all-remaining-tokens:"+fn+":"+shape, fmt.Sprintf("write pool %d + challenge pool %d = %s, but owner refund %s + blobber payments %s = %s", a.WritePool, pre.cps[id], avail, refund, paidAll, total))
	}
}

// ---------------------------------------------------------------------------------------------
// C15: read markers

func (s *scen) readMonitor(st *chainsim.Step, v func(key, what string)) {
	if st.Err != nil {
		return
	}
	pre, post := s.view(st.Pre), s.view(st.Post)
	fn := st.Txn.FunctionName
	ok := st.Txn.Status == transaction.TxnSuccess
	// counters only move forward, on every transition
	for p, rm := range pre.readConns {
		q := post.readConns[p]
		if q == nil {
			v("C15:read-counter-record-removed:"+fn, "the last-redeemed record of a (blobber, client, allocation) disappeared")
		} else if q.ReadCounter < rm.ReadCounter {
			v("C15:read-counter-moved-backwards:"+fn, fmt.Sprintf("counter %d -> %d", rm.ReadCounter, q.ReadCounter))
		}
	}
	var redeemClient string
	if fn == "read_redeem" {
		rc := &storagesc.ReadConnection{}
		in := struct {
			Input json.RawMessage `json:"input"`
		}{}
		_ = json.Unmarshal([]byte(st.Txn.TransactionData), &in)
		if err := json.Unmarshal(in.Input, rc); err != nil || rc.ReadMarker == nil {
			return
		}
		rm := rc.ReadMarker
		redeemClient = rm.ClientID
		// is it really signed by the client's key?
		genuine := false
		sch := encryption.NewBLS0ChainScheme()
		if err := sch.SetPublicKey(rm.ClientPublicKey); err == nil {
			if good, err := sch.Verify(rm.Signature, encryption.Hash(rm.GetHashData())); err == nil && good {
				if pk, err := hex.DecodeString(rm.ClientPublicKey); err == nil && encryption.Hash(pk) == rm.ClientID {
					genuine = true
				}
			}
		}
		path := world.Tap.KeyOf // silence linters about unused in some builds
		_ = path
		var last int64
		key := storagesc.VerifReadConnectionKey(rm.BlobberID, rm.ClientID, rm.AllocationID)
		for p, m := range pre.readConns {
			if world.Tap.KeyOf(p) == key {
				last = m.ReadCounter
			}
		}
		debit := new(big.Int).Sub(new(big.Int).SetUint64(uint64(pre.rps[rm.ClientID])), new(big.Int).SetUint64(uint64(post.rps[rm.ClientID])))
		if !ok {
			if debit.Sign() != 0 {
				v("C15:rejected-marker-charged", fmt.Sprintf("a rejected read marker changed the read pool by %s", debit))
			}
			return
		}
		rel := "newer"
		if rm.ReadCounter == last {
			rel = "replay"
		} else if rm.ReadCounter < last {
			rel = "older"
		}
		st.Tag("read_redeem:accepted:" + rel)
		if !genuine {
			v("C15:marker-not-signed-by-client-accepted", "a read marker whose signature does not verify under the named client's key was redeemed")
		}
		a := pre.allocs[rm.AllocationID]
		if a == nil {
			v("C15:marker-for-unknown-allocation-accepted", "read marker redeemed for an allocation that does not exist")
			return
		}
		var price currency.Coin
		found := false
		for _, d := range a.Blobbers {
			if d.BlobberID == rm.BlobberID {
				price, found = d.ReadPrice, true
			}
		}
		if !found {
			v("C15:marker-for-foreign-blobber-accepted", "read marker redeemed by a blobber outside the allocation")
			return
		}
		newly := rm.ReadCounter - last
		if newly < 0 {
			newly = 0
		}
		// price per GiB * newly read blocks of 64 KiB = price * newly / 16384 (floor)
		want := new(big.Int).Mul(new(big.Int).SetUint64(uint64(price)), big.NewInt(newly))
		want.Div(want, big.NewInt(GB/chunk))
		if debit.Cmp(want) != 0 {
			v("C15:read-pool-debit-differs-from-price-times-new-reads:"+rel, fmt.Sprintf("counter %d after last redeemed %d at read price %d/GiB: read pool debited %s, want %s", rm.ReadCounter, last, price, debit, want))
		}
		stored := false
		for p, m := range post.readConns {
			if world.Tap.KeyOf(p) == key {
				stored = true
				if m.ReadCounter != maxI(last, rm.ReadCounter) {
					v("C15:stored-counter-not-max:"+rel, fmt.Sprintf("stored counter %d after redeeming %d over %d", m.ReadCounter, rm.ReadCounter, last))
				}
			}
		}
		if !stored {
			v("C15:redeemed-marker-not-recorded:"+rel, fmt.Sprintf("no last-redeemed record for (blobber, client, allocation) after counter %d was accepted", rm.ReadCounter))
		}
	}
	// every other change of a read pool must be a lock (by exactly the value) or the owner's unlock
	ids := map[string]bool{}
	for id := range pre.rps {
		ids[id] = true
	}
	for id := range post.rps {
		ids[id] = true
	}
	for id := range ids {
		a, b := pre.rps[id], post.rps[id]
		if a == b || (fn == "read_redeem" && id == redeemClient) {
			continue
		}
		switch {
		case fn == "read_pool_lock" && ok && b == a+st.Txn.Value:
			st.Tag("read_pool_lock:ok")
		case fn == "read_pool_unlock" && ok && id == st.Txn.ClientID && b == 0:
			st.Tag("read_pool_unlock:ok")
		case fn == "free_allocation_request" && ok && b > a:
		default:
			v("C15:read-pool-changed-without-marker:"+fn, fmt.Sprintf("read pool of %s changed %d -> %d in %s", short(id), a, b, fn))
		}
	}
}

func maxI(a, b int64) int64 {
	if a > b {
		return a
	}
	return b
}

// ---------------------------------------------------------------------------------------------
// C24: free storage

func (s *scen) freeMonitor(st *chainsim.Step, v func(key, what string)) {
	if st.Err != nil {
		return
	}
	pre, post := s.view(st.Pre), s.view(st.Post)
	fn := st.Txn.FunctionName
	ok := st.Txn.Status == transaction.TxnSuccess
	preA, postA := accounts(st.Pre.Leaves), accounts(st.Post.Leaves)
	ownerID := pre.conf.OwnerID
	ownerLoss := int64(preA[ownerID].Bal) - int64(postA[ownerID].Bal)
	if st.Txn.ClientID == ownerID {
		ownerLoss -= int64(st.Txn.Fee) + int64(st.Txn.Value)
	}
	granted := fn == "free_allocation_request" && ok
	for id, a := range post.assigners {
		p := pre.assigners[id]
		if p == nil {
			continue
		}
		if !granted && (a.CurrentRedeemed != p.CurrentRedeemed || len(a.RedeemedNonces) != len(p.RedeemedNonces)) {
			v("C24:redeemed-changed-without-grant:"+fn, fmt.Sprintf("assigner %s: redeemed %d -> %d, nonces %v -> %v", short(id), p.CurrentRedeemed, a.CurrentRedeemed, p.RedeemedNonces, a.RedeemedNonces))
		}
	}
	if !granted {
		if ownerLoss > 0 {
			v("C24:owner-wallet-debited-without-grant:"+fn, fmt.Sprintf("the storage owner wallet lost %d in %s (status %d)", ownerLoss, fn, st.Txn.Status))
		}
		return
	}
	in := txnInput(st.Txn)
	var mk struct {
		Assigner   string   `json:"assigner"`
		Recipient  string   `json:"recipient"`
		FreeTokens float64  `json:"free_tokens"`
		Nonce      int64    `json:"nonce"`
		Signature  string   `json:"signature"`
		Blobbers   []string `json:"blobbers"`
	}
	if json.Unmarshal([]byte(str(in, "marker")), &mk) != nil {
		v("C24:grant-with-undecodable-marker", "free allocation created from a marker that does not decode")
		return
	}
	st.Tag("free_allocation:granted")
	if mk.Recipient != st.Txn.ClientID {
		v("C24:grant-to-non-recipient", "free allocation created for a submitter that is not the marker's recipient")
	}
	as := pre.assigners[mk.Assigner]
	if as == nil {
		v("C24:grant-by-unregistered-assigner", "free allocation created from a marker of an unregistered assigner")
		return
	}
	text := fmt.Sprintf("%s:%f:%d:%s", mk.Recipient, mk.FreeTokens, mk.Nonce, strings.Join(mk.Blobbers, ""))
	sch := encryption.NewBLS0ChainScheme()
	good := false
	if err := sch.SetPublicKey(as.PublicKey); err == nil {
		good, _ = sch.Verify(mk.Signature, hex.EncodeToString([]byte(text)))
	}
	if !good {
		v("C24:grant-with-invalid-assigner-signature", "free allocation created although the marker is not signed by the registered assigner key")
	}
	if info := s.pathInfo(st.Pre.Path); info != nil && info.redeemed[fmt.Sprintf("%s:%d", mk.Assigner, mk.Nonce)] {
		v("C24:marker-nonce-redeemed-twice", fmt.Sprintf("nonce %d of assigner %s was already accepted earlier on this path (owner wallet debited) and is accepted again", mk.Nonce, short(mk.Assigner)))
	}
	for _, n := range as.RedeemedNonces {
		if n == mk.Nonce {
			v("C24:marker-nonce-redeemed-twice", fmt.Sprintf("nonce %d of assigner %s redeemed again", mk.Nonce, short(mk.Assigner)))
		}
	}
	tokens := new(big.Int)
	new(big.Float).Mul(big.NewFloat(mk.FreeTokens), big.NewFloat(1e10)).Int(tokens)
	if tokens.Cmp(new(big.Int).SetUint64(uint64(as.IndividualLimit))) > 0 {
		v("C24:grant-over-individual-limit", fmt.Sprintf("grant of %s over the individual limit %d", tokens, as.IndividualLimit))
	}
	pa := post.assigners[mk.Assigner]
	if pa == nil {
		v("C24:assigner-removed-by-grant", "assigner node gone")
		return
	}
	if pa.CurrentRedeemed > pa.TotalLimit {
		v("C24:redeemed-over-total-limit", fmt.Sprintf("assigner %s: redeemed %d > total limit %d", short(mk.Assigner), pa.CurrentRedeemed, pa.TotalLimit))
	}
	if new(big.Int).Sub(new(big.Int).SetUint64(uint64(pa.CurrentRedeemed)), new(big.Int).SetUint64(uint64(as.CurrentRedeemed))).Cmp(tokens) != 0 {
		v("C24:redeemed-not-raised-by-grant", fmt.Sprintf("redeemed %d -> %d for a grant of %s", as.CurrentRedeemed, pa.CurrentRedeemed, tokens))
	}
	has := false
	for _, n := range pa.RedeemedNonces {
		has = has || n == mk.Nonce
	}
	if !has {
		v("C24:nonce-not-recorded", fmt.Sprintf("nonce %d not recorded as redeemed", mk.Nonce))
	}
	if tokens.Cmp(big.NewInt(ownerLoss)) < 0 {
		v("C24:owner-wallet-debited-beyond-grant", fmt.Sprintf("owner wallet lost %d for a grant of %s", ownerLoss, tokens))
	}
	created := 0
	for _, id := range post.allocIDs {
		if pre.allocs[id] == nil {
			created++
			if post.allocs[id].Owner != mk.Recipient {
				v("C24:allocation-created-for-other-owner", "the free allocation is owned by someone other than the marker's recipient")
			}
		}
	}
	if created != 1 {
		v("C24:grant-did-not-create-one-allocation", fmt.Sprintf("%d allocations created by one marker", created))
	}
}

// freeStorageDebitOK is the free-storage clause of the C04 oracle (hook of lib/mon.DebitMonitor):
// the debited account is the configured storage owner wallet, the transaction is a
// free_allocation_request whose marker is validly signed by a registered assigner and names the
// submitter as recipient, and the (assigner, nonce) pair was not accepted before on this path.
func (s *scen) freeStorageDebitOK(w *world.World, st *chainsim.Step, id string) bool {
	pre := s.view(st.Pre)
	if pre.conf == nil || id != pre.conf.OwnerID || st.Txn.FunctionName != "free_allocation_request" {
		return false
	}
	var mk struct {
		Assigner   string   `json:"assigner"`
		Recipient  string   `json:"recipient"`
		FreeTokens float64  `json:"free_tokens"`
		Nonce      int64    `json:"nonce"`
		Signature  string   `json:"signature"`
		Blobbers   []string `json:"blobbers"`
	}
	if json.Unmarshal([]byte(str(txnInput(st.Txn), "marker")), &mk) != nil || mk.Recipient != st.Txn.ClientID {
		return false
	}
	as := pre.assigners[mk.Assigner]
	if as == nil {
		return false
	}
	text := fmt.Sprintf("%s:%f:%d:%s", mk.Recipient, mk.FreeTokens, mk.Nonce, strings.Join(mk.Blobbers, ""))
	sch := encryption.NewBLS0ChainScheme()
	if err := sch.SetPublicKey(as.PublicKey); err != nil {
		return false
	}
	if good, err := sch.Verify(mk.Signature, hex.EncodeToString([]byte(text))); err != nil || !good {
		return false
	}
	info := s.pathInfo(st.Pre.Path)
	if info == nil {
		panic("freeStorageDebitOK: untracked path " + strings.Join(st.Pre.Path, " "))
	}
	if info.redeemed[fmt.Sprintf("%s:%d", mk.Assigner, mk.Nonce)] {
		st.Tag("free-storage-debit:replayed-marker")
		return false
	}
	st.Tag("free-storage-debit:authorised")
	return true
}

// ---------------------------------------------------------------------------------------------
// C09 (storage contract): liabilities never grow without backing.

func liabilities(w *sview) (total *big.Int, parts map[string]*big.Int) {
	parts = map[string]*big.Int{"stake": new(big.Int), "rewards": new(big.Int), "write": new(big.Int), "challenge": new(big.Int), "read": new(big.Int)}
	add := func(k string, c currency.Coin) { parts[k].Add(parts[k], new(big.Int).SetUint64(uint64(c))) }
	for _, sp := range w.sps {
		st, rw := spTotals(sp)
		add("stake", st)
		add("rewards", rw)
	}
	for _, a := range w.allocs {
		add("write", a.WritePool)
	}
	for _, c := range w.cps {
		add("challenge", c)
	}
	for _, c := range w.rps {
		add("read", c)
	}
	total = new(big.Int)
	for _, p := range parts {
		total.Add(total, p)
	}
	return
}

func (s *scen) liabMonitor(st *chainsim.Step, v func(key, what string)) {
	if st.Err != nil {
		return
	}
	pre, post := s.view(st.Pre), s.view(st.Post)
	l0, p0 := liabilities(pre)
	l1, p1 := liabilities(post)
	dL := new(big.Int).Sub(l1, l0)
	dW := new(big.Int).Sub(new(big.Int).SetUint64(uint64(post.wallet)), new(big.Int).SetUint64(uint64(pre.wallet)))
	if dL.Cmp(dW) > 0 {
		var grew []string
		for _, k := range []string{"stake", "rewards", "write", "challenge", "read"} {
			if d := new(big.Int).Sub(p1[k], p0[k]); d.Sign() != 0 {
				grew = append(grew, fmt.Sprintf("%s %+d", k, d))
			}
		}
		shape := ""
		if st.Txn.FunctionName == "update_allocation_request" {
			if a := pre.allocs[targetAlloc(st.Txn)]; a != nil {
				if rid := str(txnInput(st.Txn), "remove_blobber_id"); rid != "" {
					shape = ":removed-blobber-alive"
					if b := pre.blobbers[rid]; b != nil && (b.Killed || b.ShutDown) {
						shape = ":removed-blobber-killed"
					}
				}
			}
		}
		var pools []string
		for _, k := range grew {
			pools = append(pools, strings.Fields(k)[0])
		}
		v("C09:storagesc:liabilities-grew-more-than-wallet:"+sig(st)+shape+":"+strings.Join(pools, "+"),
			fmt.Sprintf("recorded liabilities changed by %s (%s) while the contract wallet changed by %s", dL, strings.Join(grew, ", "), dW))
	}
}

// ---------------------------------------------------------------------------------------------
// C02 (copied from cmd/chain/monitors.go): a chargeable failure leaves only the fee payment, the
// nonce increment and one error event.

func failMonitor(s *chainsim.Step, v func(key, what string)) {
	if s.Err != nil || s.Txn.Status != transaction.TxnError {
		return
	}
	cls := actionClass(s.Action.Name)
	writes := 0
	for _, r := range s.Tap {
		if r.Op == "emit_error" {
			break
		}
		if r.Op == "insert" || r.Op == "delete" || r.Op == "add_transfer" || r.Op == "set_client" {
			writes++
		}
	}
	if writes > 0 {
		s.Tag("late-failure:" + cls)
	} else {
		s.Tag("early-failure:" + cls)
	}
	pre, post := accounts(s.Pre.Leaves), accounts(s.Post.Leaves)
	fee := uint64(s.Txn.Fee)
	for _, d := range s.Diff {
		switch {
		case d.Path == s.Txn.ClientID && world.Tap.IsAccount(d.Path):
			a, b := pre[d.Path], post[d.Path]
			if b.Nonce != a.Nonce+1 || a.Bal-b.Bal != fee || b.Bal > a.Bal {
				v("C02:sender-change-not-fee-and-nonce:"+cls, fmt.Sprintf("sender %d/%d -> %d/%d with fee %d", a.Bal, a.Nonce, b.Bal, b.Nonce, fee))
			}
		case d.Path == minersc.ADDRESS && world.Tap.IsAccount(d.Path):
			a, b := pre[d.Path], post[d.Path]
			if b.Bal-a.Bal != fee || b.Nonce != a.Nonce {
				v("C02:miner-contract-change-not-fee:"+cls, fmt.Sprintf("miner contract wallet %d -> %d with fee %d", a.Bal, b.Bal, fee))
			}
		default:
			what := world.Tap.KeyOf(d.Path)
			if world.Tap.IsAccount(d.Path) {
				what = "account " + d.Path
			}
			v("C02:failed-call-left-state-change:"+cls, fmt.Sprintf("leaf %s (%s) changed by a failed call: pre %d bytes, post %d bytes", d.Path, what, len(d.Pre), len(d.Post)))
		}
	}
	nErr := 0
	for _, e := range s.Events {
		switch {
		case e.Type == event.TypeError:
			nErr++
		case e.Tag == event.TagAddOrOverwriteUser || e.Tag == event.TagUniqueAddress:
		default:
			v("C02:failed-call-left-event:"+cls, fmt.Sprintf("event type %v tag %v index %s survived a failed call", e.Type, e.Tag, e.Index))
		}
	}
	if nErr != 1 {
		v("C02:error-event-count:"+cls, fmt.Sprintf("%d error events, want 1", nErr))
	}
}

func allMonitors(s *scen) []chainsim.Monitor {
	return []chainsim.Monitor{s.harnessMonitor, s.tagMonitor, s.cpMonitor, s.capMonitor, s.closeMonitor, s.readMonitor, s.freeMonitor, s.liabMonitor, failMonitor}
}
