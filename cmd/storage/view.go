package main

import (
	"fmt"
	"sort"
	"strings"

	"0chain.net/core/encryption"
	"0chain.net/smartcontract/storagesc"
	"github.com/0chain/common/core/currency"
	"github.com/0chain/common/core/util"
	"verif/lib/chainsim"
	"verif/lib/world"
)

// sview is the decoded storage-contract part of one state: EVERY leaf of the trie is visited;
// a leaf is typed by the Go type of the object the contract last inserted at that path (recorded
// through the keytap hook) and its ids are taken from the plaintext key (world.Tap.KeyOf).
type sview struct {
	node      *chainsim.SNode
	allocs    map[string]*storagesc.VerifAlloc // by allocation id
	allocIDs  []string                         // sorted
	cps       map[string]currency.Coin         // challenge pools by allocation id
	sps       map[string]*storagesc.VerifStakePool // "blobber:<id>" / "validator:<id>"
	spKeys    []string
	blobbers  map[string]*storagesc.VerifBlobber
	rps       map[string]currency.Coin // read pools by client id
	assigners map[string]*storagesc.VerifAssigner
	readConns map[string]*storagesc.ReadMarker // by trie path
	conf      *storagesc.VerifConfigView
	wallet    currency.Coin // balance of the storage contract's address
	bad       []string      // harness-level decoding problems
}

func (s *scen) typeOf(path string) string {
	s.mu.Lock()
	defer s.mu.Unlock()
	return s.types[path]
}

func (s *scen) view(n *chainsim.SNode) *sview {
	s.mu.Lock()
	for _, v := range s.views {
		if v.node == n {
			s.mu.Unlock()
			return v
		}
	}
	s.mu.Unlock()
	v := s.decode(n)
	s.mu.Lock()
	s.views = append(s.views, v)
	if len(s.views) > 6 {
		s.views = s.views[len(s.views)-6:]
	}
	s.mu.Unlock()
	return v
}

func (s *scen) decode(n *chainsim.SNode) *sview {
	v := &sview{node: n, allocs: map[string]*storagesc.VerifAlloc{}, cps: map[string]currency.Coin{}, sps: map[string]*storagesc.VerifStakePool{},
		blobbers: map[string]*storagesc.VerifBlobber{}, rps: map[string]currency.Coin{}, assigners: map[string]*storagesc.VerifAssigner{},
		readConns: map[string]*storagesc.ReadMarker{}}
	confPath := string(util.Path(encryption.Hash(storagesc.VerifConfigKey())))
	for _, l := range leavesOf(n) {
		if world.Tap.IsAccount(l.Path) {
			if l.Path == storagesc.ADDRESS {
				if st, ok := chainsim.DecodeAccount(l.Value); ok {
					v.wallet = st.Balance
				}
			}
			continue
		}
		key := world.Tap.KeyOf(l.Path)
		typ := s.typeOf(l.Path)
		if l.Path == confPath {
			c, err := storagesc.VerifDecodeConfig(l.Value)
			if err != nil {
				v.bad = append(v.bad, "config: "+err.Error())
			}
			v.conf = c
			continue
		}
		// cross-check: pool-like keys must carry the matching type
		switch {
		case strings.Contains(key, ":challengepool:") && typ != "*storagesc.challengePool",
			strings.Contains(key, ":readpool:") && typ != "*storagesc.readPool",
			strings.Contains(key, ":freestorageredeemed:") && typ != "*storagesc.freeStorageAssigner",
			(strings.HasPrefix(key, "blobber:stakepool:") || strings.HasPrefix(key, "validator:stakepool:")) && typ != "*storagesc.stakePool":
			v.bad = append(v.bad, fmt.Sprintf("leaf %s has type %q", key, typ))
			continue
		}
		switch typ {
		case "*storagesc.StorageAllocation":
			a, err := storagesc.VerifDecodeAllocation(l.Value)
			if err != nil || storagesc.GetAllocKey(storagesc.ADDRESS, a.ID) != key {
				v.bad = append(v.bad, fmt.Sprintf("allocation leaf %s: %v", key, err))
				continue
			}
			v.allocs[a.ID] = a
			v.allocIDs = append(v.allocIDs, a.ID)
		case "*storagesc.challengePool":
			_, bal, err := storagesc.VerifDecodeChallengePool(l.Value)
			id := key[strings.LastIndex(key, ":")+1:]
			if err != nil || storagesc.VerifChallengePoolKey(id) != key {
				v.bad = append(v.bad, fmt.Sprintf("challenge pool leaf %s: %v", key, err))
				continue
			}
			v.cps[id] = bal
		case "*storagesc.stakePool":
			sp, err := storagesc.VerifDecodeStakePool(l.Value)
			if err != nil {
				v.bad = append(v.bad, fmt.Sprintf("stake pool leaf %s: %v", key, err))
				continue
			}
			k := strings.Replace(key, ":stakepool:", ":", 1)
			v.sps[k] = sp
			v.spKeys = append(v.spKeys, k)
		case "*storagesc.readPool":
			bal, err := storagesc.VerifDecodeReadPool(l.Value)
			id := key[strings.LastIndex(key, ":")+1:]
			if err != nil || storagesc.VerifReadPoolKey(id) != key {
				v.bad = append(v.bad, fmt.Sprintf("read pool leaf %s: %v", key, err))
				continue
			}
			v.rps[id] = bal
		case "*storagesc.StorageNode":
			b, err := storagesc.VerifDecodeBlobber(l.Value)
			if err != nil || storagesc.VerifBlobberKey(b.ID) != key {
				v.bad = append(v.bad, fmt.Sprintf("blobber leaf %s: %v", key, err))
				continue
			}
			v.blobbers[b.ID] = b
		case "*storagesc.freeStorageAssigner":
			a, err := storagesc.VerifDecodeAssigner(l.Value)
			if err != nil || storagesc.VerifAssignerKey(a.ClientID) != key {
				v.bad = append(v.bad, fmt.Sprintf("assigner leaf %s: %v", key, err))
				continue
			}
			v.assigners[a.ClientID] = a
		case "*storagesc.ReadConnection":
			rc := &storagesc.ReadConnection{}
			if _, err := rc.UnmarshalMsg(l.Value); err != nil || rc.ReadMarker == nil {
				v.bad = append(v.bad, fmt.Sprintf("read connection leaf %s: %v", key, err))
				continue
			}
			v.readConns[l.Path] = rc.ReadMarker
		}
	}
	sort.Strings(v.allocIDs)
	sort.Strings(v.spKeys)
	return v
}

// leavesOf returns the leaves of a state; engines that do not keep them (the environment-
// differential explorer) have them read from the state trie on demand.
func leavesOf(n *chainsim.SNode) []world.Leaf {
	if n.Leaves != nil {
		return n.Leaves
	}
	return world.Leaves(n.N.State)
}

// node reads one contract node of a state by its plaintext key.
func (s *scen) node(n *chainsim.SNode, key string, out interface{ UnmarshalMsg([]byte) ([]byte, error) }) bool {
	p := string(util.Path(encryption.Hash(key)))
	ls := leavesOf(n)
	i := sort.Search(len(ls), func(i int) bool { return ls[i].Path >= p })
	if i >= len(ls) || ls[i].Path != p {
		return false
	}
	_, err := out.UnmarshalMsg(ls[i].Value)
	return err == nil
}

// spTotals returns stake (sum of delegate balances) and unpaid rewards (pool + delegates).
func spTotals(sp *storagesc.VerifStakePool) (stake, rewards currency.Coin) {
	rewards = sp.Reward
	for _, p := range sp.Pools {
		stake += p.Balance
		rewards += p.Reward
	}
	return
}

func short(id string) string {
	if len(id) > 8 {
		return id[:8]
	}
	return id
}
