package main

import (
	"time"

	"0chain.net/smartcontract/stakepool/spenum"
	"github.com/0chain/common/core/statecache"
	"verif/lib/chainsim"
	"verif/lib/envs"
	"verif/lib/ev"
	"verif/lib/world"
)

// C06 part "storage" and C07 part "storage-cache": storage-contract transactions on the richest
// root states of scenario S, every transition re-executed under every environment answer (map
// iteration orders, wall-clock answers, lineage-warmed cache; for C07 also a cache shared by all
// forks) by the environment-differential explorer of lib/chainsim.
func init() {
	checks["C06"] = func(run *ev.Run, _ string) { storageDifferential(run, "C06", envs.Determinism, 0, 0) }
	checks["C07"] = func(run *ev.Run, _ string) { storageDifferential(run, "C07:chain", envs.Cache, 2, 1) }
}

// blockRewards: the generator's blobber_block_rewards transaction (effective in rounds that are a
// multiple of the trigger period).
func (s *scen) blockRewards(miner int) chainsim.Action {
	m := s.w.Miners[miner]
	a := s.scCall("blobber_block_rewards("+m.Name+")", m.Name, "blobber_block_rewards", 0, nil, 0, static(map[string]any{}))
	a.Miner = miner
	return a
}

// differentialAlphabet: letters that iterate maps, touch partitions, pay several delegates /
// blobbers / validators, or read cacheable entities.
func (s *scen) differentialAlphabet() []chainsim.Action {
	return []chainsim.Action{
		s.genChallenge(0),
		s.challengeResponse("A", 0, "pass", 0, 0),
		s.challengeResponse("A", 0, "fail", 0, 0),
		s.commit("A", 2, 100<<20, "", 0),
		s.update("A", "c0", 0, false, 3, 0, ZCN, 0, 0),
		s.update("A", "c0", 0, true, -1, -1, 2*ZCN, 0, 0),
		s.cancel("A", "c0", 0, 0),
		s.finalize("A", "b1", late, 0),
		s.kill("scowner", "b0"),
		s.shutdown("c2", "b1"),
		s.stake("c3", spenum.Blobber, "b0", 2*ZCN, 0), // a second delegate: rewards are split over a map of pools
		s.collect("c2", spenum.Blobber, "b1"),
		s.unstake("c2", spenum.Blobber, "b3", 0),
		s.readRedeem("A", 1, "c0", 2, "", 0),
		s.freeAlloc("c1", "c1", 2, 3.5, 5, "", []int{1, 2, 3}, 0),
		s.commit("T", 1, 1, "", 0),
		s.blockRewards(0),
		// late-failing calls: they mutate cached entities (allocation, blobbers, stake pools) and are then rolled back
		s.update("A", "c0", 2*GB, false, 3, 0, 0, 0, 7),
		s.newAlloc("c1", []int{0, 1, 2}, allocSize, ZCN, 7),
	}
}

func storageDifferential(run *ev.Run, prefix string, e func(l, sh *statecache.StateCache) []*chainsim.Env, sharedPasses, shardDepth int) {
	s := newScen(0.1)
	r := s.roots()
	roots := pick(run, r, "AWC", "AB", "F", "TD")
	ex := &chainsim.Explorer{Run: run, W: s.w, Actions: s.differentialAlphabet(), Roots: roots, Depth: run.Pick(2, 3),
		Budget: time.Duration(run.Pick(55, 780)) * time.Second}
	d := &chainsim.Differential{E: ex, Prop: run.Prop, Envs: e, WarmLineage: true, KeyPrefix: prefix, SharedPasses: sharedPasses, ShardDepth: shardDepth}
	run.Rule = "storage contract: every action sequence up to the depth bound (no deduplication) over challenge generation and responses, write marker, replace/extend, cancel/finalize payouts, kill/shutdown, second delegate stake, reward collection, unstake, read marker, free-storage grant, clamped upload, block rewards and two late-failing calls (replace+resize without funds, under-funded new allocation) from the root states {AWC: allocation with data and an open challenge; AB: two allocations with read pools; F: free-storage assigners; TD: allocation with a dry write pool}; each transition executed on the same pre-state in the reference environment and under every other environment answer (map orders, wall-clock answers, warm caches); outcomes (error, status, output, state root, change count, events) must be identical"
	run.Extra["seam_sites"] = envs.SeamSites()
	run.Extra["roots"] = rootNames
	run.Assumptions = append([]string{"scenario S of cmd/storage (see the C12 part): providers, stakes, allocations, markers and challenges created through real signed transactions"}, envs.DeterminismAssumptions...)
	d.Run()
}

var _ = world.SCAddresses
