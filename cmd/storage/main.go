// Group II checks on the storage contract (scenario "S", engine E1 lib/chainsim): C12, C13, C14,
// C15, C24 and the storage parts of C09 and C02.
package main

import (
	"fmt"
	"os"

	"verif/lib/ev"
)

var checks = map[string]func(run *ev.Run, variant string){}

func main() {
	if len(os.Args) < 2 {
		fmt.Println("usage: storage <PropId> [quick|thorough] [variant] | storage probe <script>")
		os.Exit(2)
	}
	if os.Args[1] == "probe" {
		probe(os.Args[2:])
		return
	}
	f, ok := checks[os.Args[1]]
	if !ok {
		ev.Fatal("unknown property %s", os.Args[1])
	}
	variant := ""
	for _, a := range os.Args[2:] {
		if a != "quick" && a != "thorough" {
			variant = a
		}
	}
	run := ev.Start(os.Args[1])
	f(run, variant)
	if os.Getenv("VERIF_SHARD") == "" {
		run.Finish()
	}
}
