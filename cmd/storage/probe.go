package main

import (
	"fmt"
	"os"
	"sort"
	"strings"
	"time"

	"0chain.net/core/common"
	"verif/lib/chainsim"
	"verif/lib/world"
)

// A minimal in-process runner used for debugging / reproducing action lists (it decides
// nothing; the explorer in lib/chainsim does the checks).

type sim struct {
	s   *scen
	cur *chainsim.SNode
}

func newSim(s *scen) *sim {
	g := s.w.GenesisNode()
	n := &chainsim.SNode{N: g, Path: []string{"genesis"}}
	n.Leaves = world.Leaves(g.State)
	return &sim{s: s, cur: n}
}

func diffLeaves(pre, post []world.Leaf) []chainsim.LeafDiff {
	var out []chainsim.LeafDiff
	i, j := 0, 0
	for i < len(pre) || j < len(post) {
		switch {
		case j >= len(post) || (i < len(pre) && pre[i].Path < post[j].Path):
			out = append(out, chainsim.LeafDiff{Path: pre[i].Path, Pre: pre[i].Value})
			i++
		case i >= len(pre) || post[j].Path < pre[i].Path:
			out = append(out, chainsim.LeafDiff{Path: post[j].Path, Post: post[j].Value})
			j++
		default:
			if string(pre[i].Value) != string(post[j].Value) {
				out = append(out, chainsim.LeafDiff{Path: pre[i].Path, Pre: pre[i].Value, Post: post[j].Value})
			}
			i++
			j++
		}
	}
	return out
}

// step applies one action the way chainsim.Explorer.apply does.
func (m *sim) step(a *chainsim.Action) *chainsim.Step {
	dt := a.Dt
	if dt == 0 {
		dt = 1
	}
	w := m.s.w
	pb := m.cur.N.Block
	x := &chainsim.Ctx{W: w, N: m.cur, Now: pb.CreationDate + common.Timestamp(dt), Rnd: pb.Round + 1}
	spec := a.Build(x)
	if spec == nil {
		return nil
	}
	if spec.Time == 0 {
		spec.Time = x.Now
	}
	w.Chain.SetupStateCache()
	nd := w.Open(m.cur.N, x.Rnd, x.Now, w.Miners[a.Miner%len(w.Miners)], 1000+x.Rnd, strings.Join(m.cur.Path, "/")+"/"+a.Name)
	t := w.Txn(*spec)
	world.Tap.Begin()
	evs, err := w.Exec(nd, t)
	tap := world.Tap.End()
	w.CloseBlock(nd)
	post := &chainsim.SNode{N: nd, Depth: m.cur.Depth + 1, Path: append(append([]string{}, m.cur.Path...), a.Name)}
	post.Leaves = world.Leaves(nd.State)
	st := &chainsim.Step{W: w, Pre: m.cur, Post: post, Action: a, Txn: t, Err: err, Events: evs, Tap: tap, Diff: diffLeaves(m.cur.Leaves, post.Leaves)}
	if err == nil {
		m.cur = post
	}
	return st
}

func (v *sview) dump(s *scen) string {
	var sb strings.Builder
	name := func(id string) string {
		if a, ok := s.w.ByID[id]; ok {
			return a.Name
		}
		return short(id)
	}
	fmt.Fprintf(&sb, "  wallet=%d\n", v.wallet)
	for _, id := range v.allocIDs {
		a := v.allocs[id]
		cp, has := v.cps[id]
		fmt.Fprintf(&sb, "  alloc %s owner=%s size=%d exp=%d wp=%d cp=%d(has=%v) toCh=%d back=%d used=%d open=%d v=%s\n", short(id), name(a.Owner), a.Size, a.Expiration, a.WritePool, cp, has, a.MovedToChallenge, a.MovedBack, a.UsedSize, a.OpenChallenges, a.Version)
		for _, d := range a.Blobbers {
			fmt.Fprintf(&sb, "    %s size=%d used=%d offer=%d integral=%d chRew=%d ret=%d pen=%d lf=%d ls=%d open=%d\n", name(d.BlobberID), d.Size, d.UsedSize, d.Offer, d.Integral, d.ChallengeReward, d.Returned, d.Penalty, d.LatestFinalized, d.LatestSuccess, d.OpenChallenges)
		}
	}
	for id, c := range v.cps {
		if v.allocs[id] == nil {
			fmt.Fprintf(&sb, "  ORPHAN challenge pool %s = %d\n", short(id), c)
		}
	}
	for _, k := range v.spKeys {
		sp := v.sps[k]
		st, rw := spTotals(sp)
		parts := strings.SplitN(k, ":", 2)
		fmt.Fprintf(&sb, "  sp %s:%s stake=%d rewards=%d(pool %d) offers=%d killed=%v pools=%d\n", parts[0], name(parts[1]), st, rw, sp.Reward, sp.TotalOffers, sp.Killed, len(sp.Pools))
	}
	var bids []string
	for id := range v.blobbers {
		bids = append(bids, id)
	}
	sort.Strings(bids)
	for _, id := range bids {
		b := v.blobbers[id]
		fmt.Fprintf(&sb, "  blobber %s cap=%d alloc=%d saved=%d wp=%d killed=%v shut=%v v=%s\n", name(id), b.Capacity, b.Allocated, b.SavedData, b.WritePrice, b.Killed, b.ShutDown, b.Version)
	}
	for id, c := range v.rps {
		fmt.Fprintf(&sb, "  readpool %s = %d\n", name(id), c)
	}
	for id, a := range v.assigners {
		fmt.Fprintf(&sb, "  assigner %s ind=%d tot=%d redeemed=%d nonces=%v\n", name(id), a.IndividualLimit, a.TotalLimit, a.CurrentRedeemed, a.RedeemedNonces)
	}
	for _, b := range v.bad {
		fmt.Fprintf(&sb, "  BAD %s\n", b)
	}
	return sb.String()
}

// probe <root> [action name ...]: run a root script and then the named actions of the full
// alphabet, printing each outcome and the decoded state; all monitors are evaluated.
func probe(args []string) {
	s := newScen(0.1)
	m := newSim(s)
	root := "A"
	if len(args) > 0 {
		root = args[0]
		args = args[1:]
	}
	t0 := time.Now()
	scripts := s.roots()
	script, ok := scripts[root]
	if !ok {
		fmt.Println("unknown root", root)
		os.Exit(2)
	}
	verbose := os.Getenv("PROBE_V") != ""
	run := func(a *chainsim.Action, show bool) {
		st := m.step(a)
		if st == nil {
			fmt.Printf("-- %s: not applicable\n", a.Name)
			return
		}
		fmt.Printf("-- %s: err=%v status=%d out=%.300s\n", a.Name, st.Err, st.Txn.Status, st.Txn.TransactionOutput)
		for _, mon := range allMonitors(s) {
			mon(st, func(key, what string) { fmt.Printf("   VIOLATION %s\n     %s\n", key, what) })
		}
		for _, tg := range st.Tags {
			fmt.Printf("   tag %s\n", tg)
		}
		if show {
			fmt.Print(s.view(m.cur).dump(s))
		}
	}
	for i := range script {
		run(&script[i], verbose)
	}
	fmt.Printf("root %s done in %v, now=%d round=%d\n", root, time.Since(t0), m.cur.N.Block.CreationDate, m.cur.N.Block.Round)
	fmt.Print(s.view(m.cur).dump(s))
	all := s.fullAlphabet()
	for _, name := range args {
		var act *chainsim.Action
		for i := range all {
			if all[i].Name == name {
				act = &all[i]
			}
		}
		if act == nil {
			fmt.Printf("no action %q; alphabet:\n", name)
			for _, a := range all {
				fmt.Println("   ", a.Name)
			}
			os.Exit(2)
		}
		run(act, true)
	}
}
