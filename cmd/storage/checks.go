package main

import (
	"fmt"
	"os"
	"strconv"
	"strings"
	"time"

	"0chain.net/smartcontract/stakepool/spenum"
	"verif/lib/chainsim"
	"verif/lib/ev"
	"verif/lib/mon"
)

func init() {
	checks["C12"] = c12
	checks["C13"] = c13
	checks["C14"] = c14
	checks["C15"] = c15
	checks["C24"] = c24
	checks["C09"] = c09
	checks["C02"] = c02
	checks["C04"] = c04
}

const late = TU + 1 // a time step that carries every allocation of the scenario past its expiry

// roots returns the named root scripts.
func (s *scen) roots() map[string][]chainsim.Action {
	ab := append(s.rootA(), s.newAllocRoot("B", "c1", []int{1, 2, 3}, 4*ZCN), s.readPoolLock("c0", 3e6, 0), s.readPoolLock("c1", 1e6, 0))
	f := append(s.rootBase(), s.addAssigner("scowner", 0, 4, 7, 0), s.addAssigner("scowner", 1, 3.5, 3.5, 0), s.addAssigner("scowner", 2, 4, 14.5, 0))
	// F2: the markers with nonces 5 and 3 of assigner a2 already redeemed, out of nonce order
	f2 := append(append([]chainsim.Action{}, f...), s.freeAlloc("c1", "c1", 2, 3.5, 5, "", []int{1, 2, 3}, 0), s.freeAlloc("c1", "c1", 2, 3.5, 3, "", []int{1, 2, 3}, 0))
	awc := append(s.rootAW(), s.genChallenge(0))
	awk := append(s.rootAW(), s.kill("scowner", "b0"))
	return map[string][]chainsim.Action{"AWM": s.rootAWM(), "AX": s.rootAX(), "TS": s.rootTS(), "AO": s.rootAO(), "AWP": s.rootAWP(), "TD": s.rootTD(), "base": s.rootBase(), "A": s.rootA(), "AW": s.rootAW(), "AWC": awc, "AWK": awk, "AB": ab, "F": f, "F2": f2}
}

// fullAlphabet is the union of every action used by some check (the probe command picks from it).
func (s *scen) fullAlphabet() []chainsim.Action {
	var out []chainsim.Action
	seen := map[string]bool{}
	for _, l := range [][]chainsim.Action{s.oddAlphabet(true), s.dryAlphabet(true), s.lifeAlphabet(2), s.closeAlphabet(true), s.readAlphabet(true), s.freeAlphabet(true), s.capAlphabet(true), s.lateFailing()} {
		for _, a := range l {
			if !seen[a.Name] {
				seen[a.Name] = true
				out = append(out, a)
			}
		}
	}
	return out
}

// lifeAlphabet: the life cycle of allocation A with data and challenges (C12, C09).
// level 0 = core (12 actions), 1 = medium (18), 2 = full (25).
func (s *scen) lifeAlphabet(level int) []chainsim.Action {
	a := []chainsim.Action{
		s.commit("A", 0, 200<<20, "", 0),
		s.commit("A", 0, -(300 << 20), "", 0),
		s.commit("A", 2, 100<<20, "", 0),
		s.genChallenge(0),
		s.challengeResponse("A", 0, "pass", 0, 0),
		s.challengeResponse("A", 0, "fail", 0, 0),
		s.update("A", "c0", 0, true, -1, -1, 2*ZCN, 0, 0),
		s.update("A", "c0", GB, false, -1, -1, 3*ZCN, 0, 0),
		s.update("A", "c0", 0, false, 3, 0, ZCN, 0, 0),
		s.kill("scowner", "b0"),
		s.cancel("A", "c0", 0, 0),
		s.finalize("A", "b1", late, 0),
	}
	if level >= 1 {
		a = append(a,
			s.challengeResponse("A", 1, "pass", 0, 0),
			s.challengeResponse("A", 0, "one", 0, 0),
			s.tick("b3", 2),
			s.update("A", "c0", 0, false, 3, -1, 2*ZCN, 0, 0),
			s.updateBlobber("b1", ZCN/4, 0),
			s.shutdown("c2", "b1"),
		)
	}
	if level >= 2 {
		a = append(a,
			s.update("A", "c0", 0, false, 3, 1, ZCN, 0, 0),
			s.writePoolLock("A", "c0", ZCN, 0),
			s.shutdown("c2", "b3"),
			s.unstakeOwnID("c2"),
			s.finalize("A", "c0", late, 0),
			s.collect("c2", spenum.Blobber, "b1"),
			s.unstake("c2", spenum.Blobber, "b3", 0),
		)
	}
	return a
}

// dryAlphabet: allocation T whose write pool is (nearly) empty: clamped uploads, clamped deletes,
// challenges paid from a challenge pool that holds less than the full price, extension with and
// without fresh tokens, close.
func (s *scen) dryAlphabet(wide bool) []chainsim.Action {
	a := []chainsim.Action{
		s.commit("T", 1, 1, "", 0),
		s.commit("T", 2, 1, "", 0),
		s.commit("T", 1, -1, "", 0),
		s.genChallenge(0),
		s.challengeResponse("T", 0, "pass", 0, 0),
		s.challengeResponse("T", 0, "fail", 0, 0),
		s.update("T", "c0", 0, true, -1, -1, 0, 0, 0),
		s.update("T", "c0", 0, true, -1, -1, 2*tinyCost, 0, 0),
		s.writePoolLock("T", "c0", ZCN/10, 0),
		s.cancel("T", "c0", 0, 0),
		s.finalize("T", "b1", late, 0),
	}
	if wide {
		a = append(a,
			s.commit("T", 3, -1, "", 0),
			s.update("T", "c0", 2*chunk, false, -1, -1, tinyCost, 0, 0),
			s.tick("b0", 3),
			s.kill("scowner", "b1"),
		)
	}
	return a
}

// capAlphabet: capacity and offers (C13): several allocations over the tight blobber b0,
// resize, replace, settings updates, kill, close.
func (s *scen) capAlphabet(wide bool) []chainsim.Action {
	a := []chainsim.Action{
		s.newAlloc("c1", []int{0, 1, 2}, allocSize, 4*ZCN, 0),
		s.newAlloc("c1", []int{0, 1, 3}, allocSize/2, 2*ZCN, 0),
		s.update("A", "c0", GB, false, -1, -1, 3*ZCN, 0, 0),
		s.update("A", "c0", 0, false, 3, 0, ZCN, 0, 0),
		s.update("A", "c0", 0, false, 3, -1, 2*ZCN, 0, 0),
		s.cancel("A", "c0", 0, 0),
		s.cancel("dyn:c1", "c1", 0, 0),
		s.finalize("A", "c0", late, 0),
		s.kill("scowner", "b0"),
		s.updateBlobber("b0", 0, 2*GB),
		s.updateBlobber("b1", ZCN/2, 0),
		s.unstake("c2", spenum.Blobber, "b0", 0),
	}
	if wide {
		a = append(a,
			s.stake("c3", spenum.Blobber, "b0", 2*ZCN, 0),
			s.shutdown("c2", "b1"),
			s.update("dyn:c1", "c1", 0, true, -1, -1, 2*ZCN, 0, 0),
			s.finalize("dyn:c1", "b1", late, 0),
			s.commit("A", 0, 200<<20, "", 0),
		)
	}
	return a
}

// oddAlphabet: allocation O whose size is not a multiple of the data shards: resize by further
// non-multiples, then add / replace blobbers, further allocations, close (C13).
func (s *scen) oddAlphabet(wide bool) []chainsim.Action {
	a := []chainsim.Action{
		s.update("O", "c0", GB+1, false, -1, -1, ZCN, 0, 0),
		s.update("O", "c0", 0, false, 3, -1, 2*ZCN, 0, 0),
		s.update("O", "c0", 0, false, 3, 1, ZCN, 0, 0),
		s.update("O", "c0", 0, false, 3, 0, ZCN, 0, 0),
		s.newAlloc("c1", []int{0, 1, 3}, allocSize/2+3, 2*ZCN, 0),
		s.cancel("O", "c0", 0, 0),
		s.finalize("O", "b2", late, 0),
	}
	if wide {
		a = append(a,
			s.update("O", "c0", 3, false, -1, -1, ZCN, 0, 0),
			s.update("O", "c0", 0, true, -1, -1, ZCN, 0, 0),
			s.cancel("dyn:c1", "c1", 0, 0),
			s.kill("scowner", "b1"),
		)
	}
	return a
}

// closeAlphabet: who may close when, repeated closes, operations after closing (C14).
func (s *scen) closeAlphabet(wide bool) []chainsim.Action {
	a := []chainsim.Action{
		s.cancel("A", "c0", 0, 0),
		s.cancel("A", "c1", 0, 3),
		s.cancel("A", "b0", 0, 3),
		s.cancel("A", "c0", late, 3),
		s.finalize("A", "c0", 0, 3),
		s.finalize("A", "c0", late, 0),
		s.finalize("A", "b1", late, 0),
		s.finalize("A", "c3", late, 3),
		s.writePoolLock("A", "c0", ZCN, 3),
		s.update("A", "c0", 0, true, -1, -1, ZCN, 0, 3),
		s.commit("A", 0, 200<<20, "", 3),
		s.genChallenge(0),
		s.challengeResponse("A", 0, "pass", 0, 0),
		s.challengeResponse("A", 0, "fail", 0, 0),
	}
	if wide {
		a = append(a,
			s.readRedeem("A", 0, "c0", 1, "", 3),
			s.finalize("A", "b3", late, 3),
			s.tick("b3", TU-3),
		)
	}
	return a
}

// readAlphabet: read markers over 2 blobbers x 2 allocations (C15).
func (s *scen) readAlphabet(wide bool) []chainsim.Action {
	a := []chainsim.Action{
		s.readRedeem("A", 1, "c0", 1, "", 0),
		s.readRedeem("A", 1, "c0", 2, "", 0),
		s.readRedeem("A", 1, "c0", 3, "", 0),
		s.readRedeem("A", 0, "c0", 2, "", 0),
		s.readRedeem("B", 1, "c0", 2, "", 0),
		s.readRedeem("A", 1, "c0", 3, "c1", 2),
		s.readRedeem("A", 1, "c0", 3, "key:c1", 2),
		s.readReuse("A", 1, "c0", 2, ""),
		s.readReuse("A", 1, "c0", 1, "ts"),
		s.readReuse("A", 1, "c0", 2, "b0"),
		s.readRedeem("A", 1, "c1", 2, "", 0),
		s.readPoolLock("c0", 1e6, 0),
		s.readPoolUnlock("c0", 0),
	}
	if wide {
		a = append(a,
			s.readRedeem("A", 1, "c0", 5000, "", 2),
			s.readRedeem("A", 3, "c0", 1, "", 2),
			s.readRedeem("B", 1, "c1", 1, "", 0),
			s.readReuse("B", 1, "c0", 1, ""),
			s.readPoolUnlock("c1", 0),
			s.cancel("A", "c0", 0, 0),
		)
	}
	return a
}

// freeAlphabet: free-storage markers of three assigners (a0: individual 4, total 7; a1: 3.5/3.5;
// a2: 4/14.5 with nonces 5, 3, 8 (4) redeemable in any order, each repeatable as a replay).
func (s *scen) freeAlphabet(wide bool) []chainsim.Action {
	bl := []int{1, 2, 3}
	a := []chainsim.Action{
		s.freeAlloc("c1", "c1", 0, 3.5, 1, "", bl, 0),
		s.freeAlloc("c1", "c1", 0, 4, 2, "", bl, 0),
		s.freeAlloc("c3", "c3", 0, 3.5, 1, "", bl, 0),
		s.freeAlloc("c1", "c1", 0, 4.5, 3, "", bl, 2),
		s.freeAlloc("c1", "c1", 0, 3.5, 4, "x-unregistered", bl, 2),
		s.freeAlloc("c3", "c1", 0, 3.5, 5, "", bl, 2),
		s.freeAlloc("c1", "c1", 1, 3.5, 1, "", bl, 0),
		s.freeAlloc("c1", "c1", 1, 3.5, 1, "a0", bl, 2),
		s.addAssigner("scowner", 1, 3.5, 7, 0),
		s.addAssigner("c1", 0, 50, 70, 2),
		// assigner a2 (individual 4, total 14.5): valid markers whose nonces arrive out of order
		s.freeAlloc("c1", "c1", 2, 3.5, 5, "", bl, 0),
		s.freeAlloc("c1", "c1", 2, 3.5, 3, "", bl, 0),
		s.freeAlloc("c1", "c1", 2, 3.5, 8, "", bl, 0),
	}
	if wide {
		a = append(a, s.freeAlloc("c1", "c1", 2, 3.5, 4, "", bl, 0))
		a = append(a,
			s.freeAlloc("c3", "c3", 1, 3.25, 2, "", bl, 0),
			s.cancel("dyn:c1", "c1", 0, 0),
			s.readPoolUnlock("c1", 0),
		)
	}
	return a
}

// lateFailing: calls that fail after the contract already wrote nodes / queued transfers (the
// evidence tags every failure late/early from the keytap record).
func (s *scen) lateFailing() []chainsim.Action {
	return []chainsim.Action{
		s.writePoolLock("nosuch", "c0", ZCN, 7),                   // transfer queued, then allocation not found
		s.newAlloc("c1", []int{0, 1, 2}, allocSize, ZCN, 7),        // blobbers and offers saved, then funding check fails
		s.update("A", "c0", 2*GB, false, -1, -1, 0, 0, 7),          // blobbers/offers rewritten, then not enough tokens
		s.update("A", "c0", 2*GB, false, 3, 0, 0, 0, 7),            // blobber replaced (rewards, pools, partitions), then not enough tokens
		s.readRedeem("A", 1, "c3", 2, "", 7),                       // empty read pool created, then not enough tokens
		s.freeAlloc("c1", "c1", 0, 0.5, 9, "", []int{1, 2, 3}, 7),   // assigner accepted, allocation built, then under-funded
		s.challengeResponse("A", 0, "forged", 0, 7),                // tickets fail verification
		s.unstake("c2", spenum.Blobber, "b0", 7),                   // rewards minted, then stake needed for offers
		s.kill("c1", "b1"),                                         // partitions touched, then not authorised
		s.dupValidator("c3", 0, 7),                                 // partition + node written, then url already used
		s.updateBlobberURL("b0", 7*ZCN, 7),                         // url nodes rewritten, then staked capacity too small
		s.cancel("A", "c0", 0, 7),                                  // (after kill, kill) open challenges settled, then offer cannot be released
	}
}

func (s *scen) explore(run *ev.Run, acts []chainsim.Action, roots [][]chainsim.Action, dq, dt int, mons ...chainsim.Monitor) {
	// which markers a root script ("rootN" in paths) has redeemed: known from the script itself
	s.rootRedeemed = func(rootName string) map[string]bool {
		i, _ := strconv.Atoi(strings.TrimPrefix(rootName, "root"))
		if run.Thorough() && len(roots) > 1 && os.Getenv("VERIF_SHARD") != "" {
			i, _ = strconv.Atoi(os.Getenv("VERIF_STAGE"))
		}
		out := map[string]bool{}
		if i < len(roots) {
			for _, a := range roots[i] {
				if mk, ok := s.freeMarkers[a.Name]; ok {
					out[mk] = true
				}
			}
		}
		return out
	}
	mons = append([]chainsim.Monitor{s.harnessMonitor, s.tagMonitor}, mons...)
	run.Assumptions = append(run.Assumptions,
		"scenario S: 4 blobbers, 2 validators, delegate c2, registered/staked/allocated through real signed transactions; storage time_unit 20s, max_challenge_completion_rounds 3, block reward trigger_period 10, validators_per_challenge 2, hard forks electra+demeter active from round 1",
		"contract nodes are typed by the Go type the contract inserted at that trie path (keytap hook) and every leaf of every post-state is visited",
		"cold state cache per transition; in-memory grocksdb stand-in; one transaction per block; block time advances 1 s per step unless the action says otherwise")
	mk := func(r [][]chainsim.Action) *chainsim.Explorer {
		legend := "roots:"
		for i, n := range rootNames {
			if len(r) == len(rootNames) {
				legend += fmt.Sprintf(" root%d=%s", i, n)
			}
		}
		if len(r) == 1 && len(rootNames) > 1 {
			i, _ := strconv.Atoi(os.Getenv("VERIF_STAGE"))
			legend += " root0=" + rootNames[i]
		}
		return &chainsim.Explorer{Run: run, W: s.w, Actions: acts, Roots: r, Depth: run.Pick(dq, dt), Monitors: withLegend(mons, legend),
			Budget: time.Duration(run.Pick(55, 800)) * time.Second}
	}
	if !run.Thorough() || len(roots) < 2 {
		mk(roots).Explore()
		return
	}
	// thorough tier: one exploration per root state, one after the other (worker processes of a
	// stage exit before the next stage starts, which bounds the memory in use)
	if os.Getenv("VERIF_SHARD") != "" {
		i, _ := strconv.Atoi(os.Getenv("VERIF_STAGE"))
		mk(roots[i : i+1]).Explore() // does not return
	}
	var states int64
	outcomes := map[string]int64{}
	rejected := int64(0)
	depthDone := run.Pick(dq, dt)
	for i := range roots {
		os.Setenv("VERIF_STAGE", strconv.Itoa(i))
		mk(roots[i : i+1]).Explore()
		states += run.States
		if m, ok := run.Extra["transition_outcomes"].(map[string]int64); ok {
			for k, c := range m {
				outcomes[k] += c
			}
		}
		if r, ok := run.Extra["rejected_transactions"].(int64); ok {
			rejected += r
		}
		if d, ok := run.Bounds["depth_fully_completed"].(int); ok && d < depthDone {
			depthDone = d
		}
	}
	run.States = states
	run.Extra["transition_outcomes"] = outcomes
	run.Extra["rejected_transactions"] = rejected
	run.Bounds["roots"] = len(roots)
	run.Bounds["depth_fully_completed"] = depthDone
	run.Bounds["stages"] = len(roots)
}

// rootNames remembers the names of the root scripts handed to explore (legend for replays).
var rootNames []string

func pick(run *ev.Run, m map[string][]chainsim.Action, names ...string) [][]chainsim.Action {
	var out [][]chainsim.Action
	rootNames = names
	for _, n := range names {
		out = append(out, m[n])
	}
	return out
}

// withLegend appends the meaning of "rootN" in the reported path to every violation text.
func withLegend(mons []chainsim.Monitor, legend string) []chainsim.Monitor {
	out := make([]chainsim.Monitor, len(mons))
	for i, m := range mons {
		m := m
		out[i] = func(st *chainsim.Step, v func(key, what string)) {
			m(st, func(key, what string) { v(key, what+" | "+legend) })
		}
	}
	return out
}

func c12(run *ev.Run, variant string) {
	if variant == "dry" {
		blobberSlash = 0 // penalties of the dry part never slash (the zero-slash branch of blobberPenalty)
	}
	s := newScen(0.1)
	r := s.roots()
	if variant == "dry" {
		run.Rule = "BFS over all sequences up to the depth bound on allocation T (128 KiB, funded at exactly its price, write pool nearly emptied by three 1-byte markers charged as full chunks): further 1-byte uploads (clamped by the write pool), 1-byte deletes (clamped by the blobber value), challenge generation and responses, extension with and without tokens, write-pool lock, cancel, finalize; after every transition, for EVERY allocation node: challenge pool balance == sum of ChallengePoolIntegralValue"
		s.explore(run, s.dryAlphabet(run.Thorough()), pick(run, r, "TD", "TS"), 3, 4, s.cpMonitor)
		return
	}
	run.Rule = "BFS over all sequences up to the depth bound of write markers (+/-), challenge generation and responses (pass/fail/partial/late), extend, resize, add/replace blobber (alive and killed), settings change, kill, cancel, finalize on allocation A from root states {A with data, A with data and an open challenge, A with data after every data-holding blobber lowered its write price (extension then moves tokens out of the challenge pool); thorough tier also A fresh}; after every transition, for EVERY allocation node: challenge pool balance == sum of ChallengePoolIntegralValue, and no challenge pool without its allocation"
	if run.Thorough() {
		s.explore(run, s.lifeAlphabet(1), pick(run, r, "AW", "AWC", "AWP", "A"), 3, 4, s.cpMonitor)
		return
	}
	s.explore(run, s.lifeAlphabet(0), pick(run, r, "AW", "AWC", "AWP"), 3, 4, s.cpMonitor)
}

func c13(run *ev.Run, variant string) {
	s := newScen(0.1)
	r := s.roots()
	run.Rule = "BFS over sequences of new allocations on the capacity- and stake-tight blobber b0, resize, add/replace blobber, cancel/finalize, kill/shutdown, blobber settings updates and stake changes; after every transition, for EVERY blobber node: Allocated == sum of its sizes over all open allocations, <= Capacity when something was assigned, stake pool TotalOffers == sum of Offer() over those allocations; a close must never fail for want of a releasable offer"
	if variant == "odd" {
		run.Rule = "BFS over sequences on allocation O whose size (2 GiB + 1) is not a multiple of its data shards: resize by further non-multiples, add blobber, replace blobber, a further odd-sized allocation, cancel, finalize; same per-blobber oracle (Allocated == sum of sizes over open allocations, TotalOffers == sum of Offer(), <= capacity at assignment)"
		s.explore(run, s.oddAlphabet(run.Thorough()), pick(run, r, "AO"), 3, 4, s.capMonitor)
		return
	}
	s.explore(run, s.capAlphabet(run.Thorough()), pick(run, r, "A", "AW"), 3, 4, s.capMonitor)
}

func c14(run *ev.Run, variant string) {
	s := newScen(0.1)
	r := s.roots()
	run.Rule = "BFS over sequences of cancel/finalize by owner, blobber, stranger before and after expiry (repeated), then write-pool lock, update, write marker, challenge response, read marker on the closed allocation; oracle per transition: a close succeeds only for an authorised caller at the right time on an existing allocation and removes allocation and challenge pool; blobbers receive <= outstanding challenge value + cancellation charge, and in total no more than the configured cancellation charge beyond the challenge value earned since their last finalized challenge; an authorised close at the right time does not fail (also with a fresh open challenge); owner refund + blobber payments == write pool + challenge pool; any operation naming a closed allocation fails and changes only fee/nonce"
	if run.Thorough() {
		s.explore(run, s.closeAlphabet(true), pick(run, r, "AW", "AWM", "AWC", "AWK"), 3, 4, s.closeMonitor)
		return
	}
	s.explore(run, s.closeAlphabet(false), pick(run, r, "AWM", "AWC", "AWK"), 3, 4, s.closeMonitor)
}

func c15(run *ev.Run, variant string) {
	s := newScen(0.1)
	r := s.roots()
	run.Rule = "BFS over sequences of read markers with counters 1,2,3 (and 5000) for 2 clients x 2 blobbers x 2 allocations, replayed and reordered, foreign-signed, carrying the client's id with a foreign key, forged with the REUSED signature of the previously redeemed marker (same blobber with and without a new timestamp, and the marker redeemed at another blobber) and a higher counter, for a blobber outside the allocation, interleaved with read-pool lock/unlock; reference = last redeemed counter per (blobber, client, allocation): debit == floor(read price * newly read blocks / 16384), replay/older charges nothing, stored counters never decrease, forged markers are rejected"
	s.explore(run, s.readAlphabet(run.Thorough()), pick(run, r, "AB"), 4, 4, s.readMonitor)
}

func c24(run *ev.Run, variant string) {
	s := newScen(0.1)
	r := s.roots()
	run.Rule = "BFS over sequences of free-storage markers of 3 assigners (valid, replayed nonce, nonces redeemed out of order (5, 3, 8) and then replayed, over individual limit, cumulative over total limit, forged, signed by the other assigner, submitted by a non-recipient); oracle on every grant: submitter == recipient, signature verifies under the registered assigner key, nonce unused, amount <= individual limit, redeemed total <= total limit and raised by exactly the grant, exactly one allocation owned by the recipient; assigner totals and the owner wallet change only through grants"
	s.explore(run, s.tracked(s.freeAlphabet(run.Thorough())), pick(run, r, "F", "F2"), 3, 4, s.freeMonitor)
}

// c09: the liabilities oracle on every transition of the explorations above; one part per
// exploration (the variant is passed through META args).
func c09(run *ev.Run, variant string) {
	if variant == "dry" {
		blobberSlash = 0
	}
	s := newScen(0.1)
	r := s.roots()
	run.Rule = "storage contract: L = sum over ALL stake pools (delegate balances + unpaid rewards), write pools, challenge pools and read pools, W = balance of the storage contract address; after every transition dL <= dW (no block reward accrues in these alphabets). Variant " + variant
	switch variant {
	case "alloc", "":
		// union of the life-cycle, close and capacity alphabets (C12, C14, C13 explorations)
		var acts []chainsim.Action
		seen := map[string]bool{}
		for _, l := range [][]chainsim.Action{s.lifeAlphabet(1), s.closeAlphabet(false), s.capAlphabet(false)} {
			for _, a := range l {
				if !seen[a.Name] {
					seen[a.Name] = true
					acts = append(acts, a)
				}
			}
		}
		acts = append(acts, s.collect("c2", spenum.Blobber, "b1"), s.unstake("c2", spenum.Blobber, "b3", 0))
		if run.Thorough() {
			s.explore(run, acts, pick(run, r, "AW", "AWM", "AWC", "AWK", "AWP"), 2, 3, s.liabMonitor)
		} else {
			s.explore(run, acts, pick(run, r, "AWM", "AWK", "AWP"), 2, 3, s.liabMonitor)
		}
	case "dry":
		s.explore(run, s.dryAlphabet(run.Thorough()), pick(run, r, "TD", "TS"), 3, 4, s.liabMonitor)
	case "read":
		s.explore(run, s.readAlphabet(run.Thorough()), pick(run, r, "AB"), 3, 4, s.liabMonitor)
	case "free":
		s.explore(run, s.freeAlphabet(true), pick(run, r, "F"), 3, 4, s.liabMonitor)
	default:
		ev.Fatal("unknown C09 variant %q", variant)
	}
}

// c04 (part storage-free): the debit-authorisation oracle of lib/mon over the free-storage
// alphabet, with the free-storage rule supplied by freeStorageDebitOK.
func c04(run *ev.Run, variant string) {
	s := newScen(0.1)
	r := s.roots()
	mon.FreeStorageDebitOK = s.freeStorageDebitOK
	if variant == "3p" {
		acts := []chainsim.Action{
			s.setThirdParty("A", "c0"),
			s.setThirdParty("A", "c1"),
			s.update("A", "c1", 0, true, -1, -1, ZCN, 0, 0),
			s.update("A", "c1", GB, false, -1, -1, 3*ZCN, 0, 0),
			s.update("A", "c3", 0, true, -1, -1, 0, 0, 2),
			s.update("A", "c0", 0, true, -1, -1, ZCN, 0, 0),
			s.writePoolLock("A", "c1", ZCN, 0),
			s.cancel("A", "c0", 0, 0),
		}
		run.Rule = "storage contract, third-party extension: BFS over sequences of set_third_party_extendable by the owner / a stranger, update_allocation_request (extend, resize) with value > 0 by non-owners and by the owner, write-pool lock by a non-owner, cancel, from an allocation that is / is not yet third-party extendable; debit-authorisation oracle of lib/mon per transition (only the sender, up to value+fee, or the called contract may lose tokens)"
		s.explore(run, acts, pick(run, r, "AX", "A"), 3, 4, mon.DebitMonitor(s.w))
		return
	}
	run.Rule = "storage contract, free storage: BFS over sequences of free-storage markers of 3 assigners (valid, replayed, redeemed out of nonce order and replayed, over-limit, forged, wrong recipient) and assigner registrations; oracle per transition: an account that loses tokens is the sender (<= value+fee), the called contract, the source of a validly signed transfer, or the configured storage owner wallet under a free_allocation_request whose marker is validly signed by a registered assigner, names the submitter, and whose (assigner, nonce) was not accepted earlier along the path (the path record is kept by the harness from the owner wallet's debits, not read from the contract)"
	s.explore(run, s.tracked(s.freeAlphabet(run.Thorough())), pick(run, r, "F", "F2"), 3, 4, mon.DebitMonitor(s.w))
}

func c02(run *ev.Run, variant string) {
	s := newScen(0.1)
	r := s.roots()
	run.Rule = "storage contract: BFS over late-failing calls (calls that return an error after nodes were written or transfers queued) interleaved with the successful calls that enable them; oracle on every transition that ends with status error: leaf diff = sender (-fee, nonce+1) and miner-contract wallet (+fee) only, exactly one error event"
	acts := append(s.lateFailing(), s.genChallenge(0), s.kill("scowner", "b0"), s.challengeResponse("A", 0, "pass", 0, 0))
	s.explore(run, acts, pick(run, r, "AWC", "F"), 3, 4, failMonitor)
}
