// Package grocksdb is a pure-Go, in-memory stand-in for github.com/linxGnu/grocksdb v1.8.1
// implementing exactly the API surface used by 0chain (core/ememorystore, sharder, miner) and
// github.com/0chain/common/core/util/mpt_pnodedb.go. It is part of the trusted base of the
// verification harness in /verif (see DESIGN.md §1.1).
//
// Semantics kept: byte-wise key order, column-family isolation, WriteBatch atomicity,
// read-your-writes inside a transaction, empty slice for a missing key.
// Added for verification: an append-only write log per DB, Snapshot/Restore, CrashAfter.
package grocksdb

import (
	"bytes"
	"errors"
	"sort"
	"sync"
)

// ---------------------------------------------------------------------------------------------
// options (no-ops)

type CompressionType uint

const (
	NoCompression   = CompressionType(0)
	LZ4Compression  = CompressionType(4)
	ZSTDCompression = CompressionType(7)
)

type MergeOperator interface {
	FullMerge(key, existingValue []byte, operands [][]byte) ([]byte, bool)
	Name() string
}

type SliceTransform interface{}

func NewFixedPrefixTransform(int) SliceTransform { return nil }

type Cache struct{}

func NewLRUCache(uint64) *Cache { return &Cache{} }

type BlockBasedTableOptions struct{}

func NewDefaultBlockBasedTableOptions() *BlockBasedTableOptions { return &BlockBasedTableOptions{} }
func (*BlockBasedTableOptions) SetBlockCache(*Cache)            {}

type Options struct{ merge MergeOperator }

func NewDefaultOptions() *Options                                  { return &Options{} }
func (*Options) SetCreateIfMissing(bool)                           {}
func (*Options) SetCompression(CompressionType)                    {}
func (*Options) SetCreateIfMissingColumnFamilies(bool)             {}
func (*Options) OptimizeUniversalStyleCompaction(uint64)           {}
func (*Options) SetAllowMmapReads(bool)                            {}
func (*Options) SetPrefixExtractor(SliceTransform)                 {}
func (*Options) SetPlainTableFactory(uint32, int, float64, uint)   {}
func (*Options) OptimizeForPointLookup(uint64)                     {}
func (*Options) SetMaxBackgroundJobs(int)                          {}
func (*Options) SetMaxWriteBufferNumber(int)                       {}
func (*Options) SetWriteBufferSize(uint64)                         {}
func (*Options) SetMinWriteBufferNumberToMerge(int)                {}
func (*Options) IncreaseParallelism(int)                           {}
func (*Options) SetDbLogDir(string)                                {}
func (*Options) EnableStatistics()                                 {}
func (*Options) SetDeleteObsoleteFilesPeriodMicros(uint64)         {}
func (*Options) SetKeepLogFileNum(uint)                            {}
func (*Options) SetBlockBasedTableFactory(*BlockBasedTableOptions) {}
func (o *Options) SetMergeOperator(m MergeOperator)                { o.merge = m }
func (*Options) Destroy()                                          {}

type ReadOptions struct{}

func NewDefaultReadOptions() *ReadOptions { return &ReadOptions{} }
func (*ReadOptions) SetFillCache(bool)    {}
func (*ReadOptions) Destroy()             {}

type WriteOptions struct{}

func NewDefaultWriteOptions() *WriteOptions { return &WriteOptions{} }
func (*WriteOptions) SetSync(bool)          {}
func (*WriteOptions) Destroy()              {}

type FlushOptions struct{}

func NewDefaultFlushOptions() *FlushOptions { return &FlushOptions{} }
func (*FlushOptions) Destroy()              {}

type TransactionOptions struct{}

func NewDefaultTransactionOptions() *TransactionOptions { return &TransactionOptions{} }
func (*TransactionOptions) Destroy()                    {}

type TransactionDBOptions struct{}

func NewDefaultTransactionDBOptions() *TransactionDBOptions { return &TransactionDBOptions{} }
func (*TransactionDBOptions) Destroy()                      {}

// ---------------------------------------------------------------------------------------------
// Slice

type Slice struct{ data []byte }

func (s *Slice) Data() []byte {
	if s == nil {
		return nil
	}
	return s.data
}
func (s *Slice) Size() int {
	if s == nil {
		return 0
	}
	return len(s.data)
}
func (s *Slice) Exists() bool { return s != nil && s.data != nil }
func (s *Slice) Free()        {}

// ---------------------------------------------------------------------------------------------
// storage core

type ColumnFamilyHandle struct {
	name string
}

func (*ColumnFamilyHandle) Destroy() {}

// LogOp is one mutation inside a log record.
type LogOp struct {
	CF     string
	Key    []byte
	Value  []byte // nil for delete
	Delete bool
}

// LogRecord is one atomic write (a Put, a Delete or a whole WriteBatch / committed transaction).
type LogRecord struct {
	Ops []LogOp
}

type store struct {
	mu        sync.Mutex
	cfs       map[string]map[string][]byte
	log       []LogRecord
	crashAt   int // -1: never; otherwise writes with index >= crashAt are dropped silently
	logging   bool
	mergeOper MergeOperator
}

func newStore() *store {
	return &store{cfs: map[string]map[string][]byte{"default": {}}, crashAt: -1, logging: true}
}

func (s *store) cf(name string) map[string][]byte {
	m, ok := s.cfs[name]
	if !ok {
		m = map[string][]byte{}
		s.cfs[name] = m
	}
	return m
}

func (s *store) apply(rec LogRecord) {
	s.mu.Lock()
	defer s.mu.Unlock()
	if s.crashAt >= 0 && len(s.log) >= s.crashAt {
		// crashed: the write never reaches the store (but the caller sees success, like a
		// process that died right after — the harness stops the history at this point anyway)
		return
	}
	if s.logging {
		s.log = append(s.log, cloneRec(rec))
	}
	s.applyLocked(rec)
}

func (s *store) applyLocked(rec LogRecord) {
	for _, op := range rec.Ops {
		m := s.cf(op.CF)
		if op.Delete {
			delete(m, string(op.Key))
		} else {
			m[string(op.Key)] = append([]byte{}, op.Value...)
		}
	}
}

func cloneRec(r LogRecord) LogRecord {
	out := LogRecord{Ops: make([]LogOp, len(r.Ops))}
	for i, op := range r.Ops {
		out.Ops[i] = LogOp{CF: op.CF, Key: append([]byte{}, op.Key...), Delete: op.Delete}
		if !op.Delete {
			out.Ops[i].Value = append([]byte{}, op.Value...)
		}
	}
	return out
}

func (s *store) get(cf string, key []byte) []byte {
	s.mu.Lock()
	defer s.mu.Unlock()
	v, ok := s.cf(cf)[string(key)]
	if !ok {
		return nil
	}
	return append([]byte{}, v...)
}

func (s *store) sortedKeys(cf string) []string {
	s.mu.Lock()
	defer s.mu.Unlock()
	m := s.cf(cf)
	keys := make([]string, 0, len(m))
	for k := range m {
		keys = append(keys, k)
	}
	sort.Strings(keys)
	return keys
}

// ---------------------------------------------------------------------------------------------
// registry so that re-opening the same directory yields the same data ("persistence")

var (
	regMu    sync.Mutex
	registry = map[string]*store{}
)

func openStore(dir string) *store {
	regMu.Lock()
	defer regMu.Unlock()
	s, ok := registry[dir]
	if !ok {
		s = newStore()
		registry[dir] = s
	}
	return s
}

// ResetAll forgets every "persisted" database (verification helper).
func ResetAll() {
	regMu.Lock()
	defer regMu.Unlock()
	registry = map[string]*store{}
}

// ---------------------------------------------------------------------------------------------
// DB

type DB struct {
	s    *store
	name string
}

func OpenDb(opts *Options, name string) (*DB, error) {
	return &DB{s: openStore(name), name: name}, nil
}

func OpenDbColumnFamilies(opts *Options, name string, cfNames []string, cfOpts []*Options) (*DB, []*ColumnFamilyHandle, error) {
	if len(cfNames) != len(cfOpts) {
		return nil, nil, errors.New("must provide the same number of column family names and options")
	}
	db := &DB{s: openStore(name), name: name}
	hs := make([]*ColumnFamilyHandle, len(cfNames))
	db.s.mu.Lock()
	for i, n := range cfNames {
		db.s.cf(n)
		hs[i] = &ColumnFamilyHandle{name: n}
	}
	db.s.mu.Unlock()
	return db, hs, nil
}

func (db *DB) Name() string { return db.name }

func (db *DB) Get(ro *ReadOptions, key []byte) (*Slice, error) {
	return &Slice{data: db.s.get("default", key)}, nil
}

func (db *DB) GetCF(ro *ReadOptions, cf *ColumnFamilyHandle, key []byte) (*Slice, error) {
	return &Slice{data: db.s.get(cf.name, key)}, nil
}

func (db *DB) Put(wo *WriteOptions, key, value []byte) error {
	db.s.apply(LogRecord{Ops: []LogOp{{CF: "default", Key: key, Value: nonNil(value)}}})
	return nil
}

func (db *DB) PutCF(wo *WriteOptions, cf *ColumnFamilyHandle, key, value []byte) error {
	db.s.apply(LogRecord{Ops: []LogOp{{CF: cf.name, Key: key, Value: nonNil(value)}}})
	return nil
}

func (db *DB) Delete(wo *WriteOptions, key []byte) error {
	db.s.apply(LogRecord{Ops: []LogOp{{CF: "default", Key: key, Delete: true}}})
	return nil
}

func (db *DB) DeleteCF(wo *WriteOptions, cf *ColumnFamilyHandle, key []byte) error {
	db.s.apply(LogRecord{Ops: []LogOp{{CF: cf.name, Key: key, Delete: true}}})
	return nil
}

func (db *DB) Write(wo *WriteOptions, wb *WriteBatch) error {
	if len(wb.ops) == 0 {
		return nil
	}
	db.s.apply(LogRecord{Ops: wb.ops})
	return nil
}

func (db *DB) Flush(*FlushOptions) error { return nil }

func (db *DB) GetProperty(string) string { return "" }

func (db *DB) GetPropertyCF(prop string, cf *ColumnFamilyHandle) string {
	db.s.mu.Lock()
	defer db.s.mu.Unlock()
	return itoa(len(db.s.cf(cf.name)))
}

func (db *DB) NewIterator(ro *ReadOptions) *Iterator { return newIterator(db.s, "default", nil) }
func (db *DB) NewIteratorCF(ro *ReadOptions, cf *ColumnFamilyHandle) *Iterator {
	return newIterator(db.s, cf.name, nil)
}
func (db *DB) Close() {}

func nonNil(b []byte) []byte {
	if b == nil {
		return []byte{}
	}
	return b
}

func itoa(n int) string {
	if n == 0 {
		return "0"
	}
	var b []byte
	for n > 0 {
		b = append([]byte{byte('0' + n%10)}, b...)
		n /= 10
	}
	return string(b)
}

// ---------------------------------------------------------------------------------------------
// WriteBatch

type WriteBatch struct{ ops []LogOp }

func NewWriteBatch() *WriteBatch { return &WriteBatch{} }
func (wb *WriteBatch) Put(key, value []byte) {
	wb.ops = append(wb.ops, LogOp{CF: "default", Key: append([]byte{}, key...), Value: append([]byte{}, value...)})
}
func (wb *WriteBatch) PutCF(cf *ColumnFamilyHandle, key, value []byte) {
	wb.ops = append(wb.ops, LogOp{CF: cf.name, Key: append([]byte{}, key...), Value: append([]byte{}, value...)})
}
func (wb *WriteBatch) Delete(key []byte) {
	wb.ops = append(wb.ops, LogOp{CF: "default", Key: append([]byte{}, key...), Delete: true})
}
func (wb *WriteBatch) DeleteCF(cf *ColumnFamilyHandle, key []byte) {
	wb.ops = append(wb.ops, LogOp{CF: cf.name, Key: append([]byte{}, key...), Delete: true})
}
func (wb *WriteBatch) Count() int { return len(wb.ops) }
func (wb *WriteBatch) Clear()     { wb.ops = nil }
func (wb *WriteBatch) Destroy()   {}

// ---------------------------------------------------------------------------------------------
// Iterator: a sorted snapshot of (cf ∪ overlay) taken at creation, bidirectional.

type Iterator struct {
	keys []string
	vals [][]byte
	pos  int
}

func newIterator(s *store, cf string, overlay map[string]*txnVal) *Iterator {
	s.mu.Lock()
	m := map[string][]byte{}
	for k, v := range s.cf(cf) {
		m[k] = v
	}
	s.mu.Unlock()
	for k, tv := range overlay {
		if tv.del {
			delete(m, k)
		} else {
			m[k] = tv.val
		}
	}
	keys := make([]string, 0, len(m))
	for k := range m {
		keys = append(keys, k)
	}
	sort.Strings(keys)
	vals := make([][]byte, len(keys))
	for i, k := range keys {
		vals[i] = append([]byte{}, m[k]...)
	}
	return &Iterator{keys: keys, vals: vals, pos: -1}
}

func (it *Iterator) Valid() bool  { return it.pos >= 0 && it.pos < len(it.keys) }
func (it *Iterator) SeekToFirst() { it.pos = 0 }
func (it *Iterator) SeekToLast()  { it.pos = len(it.keys) - 1 }
func (it *Iterator) Next()        { it.pos++ }
func (it *Iterator) Prev()        { it.pos-- }
func (it *Iterator) Seek(key []byte) {
	it.pos = sort.Search(len(it.keys), func(i int) bool { return bytes.Compare([]byte(it.keys[i]), key) >= 0 })
}
func (it *Iterator) SeekForPrev(key []byte) {
	i := sort.Search(len(it.keys), func(i int) bool { return bytes.Compare([]byte(it.keys[i]), key) > 0 })
	it.pos = i - 1
}
func (it *Iterator) Key() *Slice {
	if !it.Valid() {
		return nil
	}
	return &Slice{data: []byte(it.keys[it.pos])}
}
func (it *Iterator) Value() *Slice {
	if !it.Valid() {
		return nil
	}
	return &Slice{data: append([]byte{}, it.vals[it.pos]...)}
}
func (it *Iterator) Err() error { return nil }
func (it *Iterator) Close()     {}

// ---------------------------------------------------------------------------------------------
// TransactionDB

type TransactionDB struct {
	s    *store
	name string
}

func OpenTransactionDb(opts *Options, tdbopts *TransactionDBOptions, name string) (*TransactionDB, error) {
	s := openStore(name)
	if opts != nil && opts.merge != nil {
		s.mergeOper = opts.merge
	}
	return &TransactionDB{s: s, name: name}, nil
}

func (db *TransactionDB) TransactionBegin(wo *WriteOptions, to *TransactionOptions, old *Transaction) *Transaction {
	return &Transaction{s: db.s, overlay: map[string]*txnVal{}}
}
func (db *TransactionDB) Get(ro *ReadOptions, key []byte) (*Slice, error) {
	return &Slice{data: db.s.get("default", key)}, nil
}
func (db *TransactionDB) Put(wo *WriteOptions, key, value []byte) error {
	db.s.apply(LogRecord{Ops: []LogOp{{CF: "default", Key: key, Value: nonNil(value)}}})
	return nil
}
func (db *TransactionDB) Delete(wo *WriteOptions, key []byte) error {
	db.s.apply(LogRecord{Ops: []LogOp{{CF: "default", Key: key, Delete: true}}})
	return nil
}
func (db *TransactionDB) NewIterator(ro *ReadOptions) *Iterator {
	return newIterator(db.s, "default", nil)
}
func (db *TransactionDB) Flush(*FlushOptions) error { return nil }
func (db *TransactionDB) Close()                    {}

type txnVal struct {
	val []byte
	del bool
}

type Transaction struct {
	s       *store
	overlay map[string]*txnVal
	order   []string
	done    bool
}

func (t *Transaction) Get(ro *ReadOptions, key []byte) (*Slice, error) {
	if tv, ok := t.overlay[string(key)]; ok {
		if tv.del {
			return &Slice{}, nil
		}
		return &Slice{data: append([]byte{}, tv.val...)}, nil
	}
	return &Slice{data: t.s.get("default", key)}, nil
}
func (t *Transaction) GetForUpdate(ro *ReadOptions, key []byte) (*Slice, error) {
	return t.Get(ro, key)
}
func (t *Transaction) touch(k string) {
	if _, ok := t.overlay[k]; !ok {
		t.order = append(t.order, k)
	}
}
func (t *Transaction) Put(key, value []byte) error {
	k := string(key)
	t.touch(k)
	t.overlay[k] = &txnVal{val: append([]byte{}, nonNil(value)...)}
	return nil
}
func (t *Transaction) Merge(key, value []byte) error {
	if t.s.mergeOper == nil {
		return errors.New("merge operator not set")
	}
	cur, _ := t.Get(nil, key)
	nv, ok := t.s.mergeOper.FullMerge(key, cur.Data(), [][]byte{value})
	if !ok {
		return errors.New("merge failed")
	}
	return t.Put(key, nv)
}
func (t *Transaction) Delete(key []byte) error {
	k := string(key)
	t.touch(k)
	t.overlay[k] = &txnVal{del: true}
	return nil
}
func (t *Transaction) NewIterator(ro *ReadOptions) *Iterator {
	return newIterator(t.s, "default", t.overlay)
}
func (t *Transaction) Commit() error {
	if t.done {
		return nil
	}
	t.done = true
	rec := LogRecord{}
	for _, k := range t.order {
		tv := t.overlay[k]
		if tv.del {
			rec.Ops = append(rec.Ops, LogOp{CF: "default", Key: []byte(k), Delete: true})
		} else {
			rec.Ops = append(rec.Ops, LogOp{CF: "default", Key: []byte(k), Value: tv.val})
		}
	}
	if len(rec.Ops) > 0 {
		t.s.apply(rec)
	}
	return nil
}
func (t *Transaction) Rollback() error {
	t.overlay = map[string]*txnVal{}
	t.order = nil
	return nil
}
func (t *Transaction) Destroy() {}
