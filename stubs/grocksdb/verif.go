package grocksdb

// Verification helpers (not part of the real grocksdb API). See DESIGN.md §1.1 / §1.6.

// VerifStore gives the harness access to the backing store of a directory.
type VerifStore struct{ s *store }

// VerifOpen returns the store backing dir (created if absent).
func VerifOpen(dir string) VerifStore { return VerifStore{openStore(dir)} }

// Log returns a copy of the write log.
func (v VerifStore) Log() []LogRecord {
	v.s.mu.Lock()
	defer v.s.mu.Unlock()
	out := make([]LogRecord, len(v.s.log))
	for i, r := range v.s.log {
		out[i] = cloneRec(r)
	}
	return out
}

// LogLen is the number of atomic writes so far.
func (v VerifStore) LogLen() int {
	v.s.mu.Lock()
	defer v.s.mu.Unlock()
	return len(v.s.log)
}

// Snapshot returns a deep copy of every column family.
func (v VerifStore) Snapshot() map[string]map[string][]byte {
	v.s.mu.Lock()
	defer v.s.mu.Unlock()
	out := map[string]map[string][]byte{}
	for cf, m := range v.s.cfs {
		c := make(map[string][]byte, len(m))
		for k, val := range m {
			c[k] = append([]byte{}, val...)
		}
		out[cf] = c
	}
	return out
}

// Restore replaces the contents (the log is truncated to empty and the crash switch cleared).
func (v VerifStore) Restore(snap map[string]map[string][]byte) {
	v.s.mu.Lock()
	defer v.s.mu.Unlock()
	v.s.cfs = map[string]map[string][]byte{}
	for cf, m := range snap {
		c := make(map[string][]byte, len(m))
		for k, val := range m {
			c[k] = append([]byte{}, val...)
		}
		v.s.cfs[cf] = c
	}
	if _, ok := v.s.cfs["default"]; !ok {
		v.s.cfs["default"] = map[string][]byte{}
	}
	v.s.log = nil
	v.s.crashAt = -1
}

// RestorePrefix sets the contents to base + the first n records of log.
func (v VerifStore) RestorePrefix(base map[string]map[string][]byte, log []LogRecord, n int) {
	v.Restore(base)
	v.s.mu.Lock()
	defer v.s.mu.Unlock()
	for i := 0; i < n && i < len(log); i++ {
		v.s.applyLocked(log[i])
	}
}

// CrashAfter makes every atomic write with log index >= k a silent no-op (k < 0: never).
func (v VerifStore) CrashAfter(k int) {
	v.s.mu.Lock()
	defer v.s.mu.Unlock()
	v.s.crashAt = k
}

// SetLogging switches the write log on or off (off saves memory in long explorations).
func (v VerifStore) SetLogging(on bool) {
	v.s.mu.Lock()
	defer v.s.mu.Unlock()
	v.s.logging = on
	if !on {
		v.s.log = nil
	}
}

// Keys returns the sorted keys of a column family.
func (v VerifStore) Keys(cf string) []string { return v.s.sortedKeys(cf) }
