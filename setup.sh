#!/bin/bash
# Run once after a fresh restore, offline: builds every check binary (warms the Go build cache).
set -u
cd "$(dirname "$0")"
. ./env.sh
mkdir -p .work .bin evidence/parts replays
rc=0
while IFS=$'\t' read -r cmd race; do
  echo "setup: building $cmd race=$race"
  if [ "$race" = 1 ]; then ./check.sh build "$cmd" race || rc=1; else ./check.sh build "$cmd" || rc=1; fi
done < <(python3 tools/parts.py builds)
exit $rc
