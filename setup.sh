#!/bin/bash
# Run once after a fresh restore, offline: builds every check binary (warms the Go build cache).
set -u
cd "$(dirname "$0")"
. ./env.sh
mkdir -p .work .bin evidence replays
rc=0
for spec in $(cut -f2,3 checks.tsv | sort -u | tr '\t' ':'); do
  cmd=${spec%%:*}; race=${spec##*:}
  echo "setup: building $cmd race=$race"
  if [ "$race" = 1 ]; then ./check.sh build "$cmd" race || rc=1; else ./check.sh build "$cmd" || rc=1; fi
done
exit $rc
