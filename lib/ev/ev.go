// Package ev is the reporting side of every check: tier/seed handling, violation
// classification against /verif/known_findings.json, replay artefacts and evidence files.
package ev

import (
	"crypto/sha256"
	"encoding/hex"
	"encoding/json"
	"fmt"
	"os"
	"path/filepath"
	"sort"
	"strconv"
	"strings"
	"sync"
	"time"
)

// Root is the /verif directory (overridable for tests through VERIF_ROOT).
func Root() string {
	if r := os.Getenv("VERIF_ROOT"); r != "" {
		return r
	}
	return "/verif"
}

type knownEntry struct {
	Property string `json:"property"`
	Key      string `json:"key"`
	Status   string `json:"status"` // "known" | "fixed"
	Commit   string `json:"commit,omitempty"`
	What     string `json:"what"`
}

// Run collects what one check invocation covered.
type Run struct {
	Prop  string
	Tier  string
	Seed  int64
	Level string
	start time.Time

	mu         sync.Mutex
	known      []knownEntry
	knownHit   map[string]bool
	violations int
	vioKeys    map[string]bool

	States      int64
	Transitions int64
	Evaluations int64
	Traces      int64
	Distinct    map[string]struct{}
	Samples     []any
	Rule        string
	Exhaustive  bool
	Bounds      map[string]any
	Extra       map[string]any
	Assumptions []string
	maxSamples  int
}

// Start begins a run for property prop. Tier comes from the first CLI argument that is
// "quick"/"thorough", else VERIF_TIER, else quick.
func Start(prop string) *Run {
	r := &Run{Prop: prop, Tier: "quick", Level: "model_checking", start: time.Now(),
		knownHit: map[string]bool{}, vioKeys: map[string]bool{}, Distinct: map[string]struct{}{},
		Bounds: map[string]any{}, Extra: map[string]any{}, Exhaustive: true, maxSamples: 6}
	if t := os.Getenv("VERIF_TIER"); t == "quick" || t == "thorough" {
		r.Tier = t
	}
	for _, a := range os.Args[1:] {
		if a == "quick" || a == "thorough" {
			r.Tier = a
		}
	}
	if s := os.Getenv("VERIF_SEED"); s != "" {
		if v, err := strconv.ParseInt(s, 10, 64); err == nil {
			r.Seed = v
		}
	}
	data, err := os.ReadFile(filepath.Join(Root(), "known_findings.json"))
	if err == nil {
		var all []knownEntry
		if json.Unmarshal(data, &all) == nil {
			for _, k := range all {
				if k.Property == prop {
					r.known = append(r.known, k)
				}
			}
		}
	}
	return r
}

// OutRoot is where evidence/ and replays/ are written (VERIF_OUT, default Root()); detection
// runs point it at a scratch directory so that they never overwrite real evidence.
func OutRoot() string {
	if r := os.Getenv("VERIF_OUT"); r != "" {
		return r
	}
	return Root()
}

// Thorough reports whether the thorough tier was requested.
func (r *Run) Thorough() bool { return r.Tier == "thorough" }

// Pick returns q in the quick tier and t in the thorough tier.
func (r *Run) Pick(q, t int) int {
	if r.Thorough() {
		return t
	}
	return q
}

// Deadline is the soft wall-clock budget of this tier (a budget, never an oracle).
func (r *Run) Deadline(quick, thorough time.Duration) time.Time {
	if r.Thorough() {
		return r.start.Add(thorough)
	}
	return r.start.Add(quick)
}

// Sample records an example case (bounded number kept).
func (r *Run) Sample(s any) {
	r.mu.Lock()
	defer r.mu.Unlock()
	if len(r.Samples) < r.maxSamples {
		r.Samples = append(r.Samples, s)
	}
}

// Outcome records a distinct observed outcome / canonical state key.
func (r *Run) Outcome(k string) {
	r.mu.Lock()
	r.Distinct[k] = struct{}{}
	r.mu.Unlock()
}

// Add adds to the counters.
func (r *Run) Add(states, transitions, evaluations int64) {
	r.mu.Lock()
	r.States += states
	r.Transitions += transitions
	r.Evaluations += evaluations
	r.Traces += evaluations
	r.mu.Unlock()
}

// Capped marks the run as not exhaustive with a reason.
func (r *Run) Capped(reason string) {
	r.mu.Lock()
	r.Exhaustive = false
	caps, _ := r.Extra["caps_hit"].([]string)
	r.Extra["caps_hit"] = append(caps, reason)
	r.mu.Unlock()
}

// Violation reports a violation with signature key (function + input class / schedule shape).
// A key matching a status:"known" entry of known_findings.json (exact, or entry key is a
// prefix ending in '*') prints KNOWN-FINDING once; anything else prints VIOLATION and makes the
// run exit 1. replay is written to replays/<prop>-<hash>.json.
func (r *Run) Violation(key, what string, replay any) {
	r.mu.Lock()
	defer r.mu.Unlock()
	for _, k := range r.known {
		if k.Status != "known" {
			continue
		}
		if k.Key == key || (strings.HasSuffix(k.Key, "*") && strings.HasPrefix(key, strings.TrimSuffix(k.Key, "*"))) {
			if !r.knownHit[k.Key] {
				r.knownHit[k.Key] = true
				fmt.Printf("KNOWN-FINDING: property=%s %s [%s]\n", r.Prop, k.What, k.Key)
			}
			return
		}
	}
	if r.vioKeys[key] {
		return
	}
	r.vioKeys[key] = true
	r.violations++
	body := map[string]any{"property": r.Prop, "key": key, "what": what, "replay": replay}
	data, _ := json.MarshalIndent(body, "", " ")
	h := sha256.Sum256([]byte(key))
	dir := filepath.Join(OutRoot(), "replays")
	_ = os.MkdirAll(dir, 0o755)
	path := filepath.Join(dir, fmt.Sprintf("%s-%s.json", r.Prop, hex.EncodeToString(h[:6])))
	_ = os.WriteFile(path, data, 0o644)
	fmt.Printf("VIOLATION property=%s replay=%s\n", r.Prop, path)
	fmt.Printf("  key=%s\n  what=%s\n", key, what)
}

// Violations is the number of unlisted violations so far.
func (r *Run) Violations() int {
	r.mu.Lock()
	defer r.mu.Unlock()
	return r.violations
}

// Finish writes evidence/<prop>.json and exits (0 held / only known findings, 1 violation).
func (r *Run) Finish() {
	r.mu.Lock()
	wall := time.Since(r.start).Seconds()
	if r.States == 0 {
		r.States = int64(len(r.Distinct))
	}
	if r.Transitions == 0 {
		r.Transitions = r.Evaluations
	}
	known := make([]string, 0, len(r.knownHit))
	for k := range r.knownHit {
		known = append(known, k)
	}
	sort.Strings(known)
	cov := map[string]any{
		"states":                        r.States,
		"transitions":                   r.Transitions,
		"traces_validated_against_impl": r.Traces,
		"evaluations":                   r.Evaluations,
		"distinct_nontrivial":           len(r.Distinct),
		"rule":                          r.Rule,
		"samples":                       r.Samples,
		"exhaustive":                    r.Exhaustive,
		"bounds":                        r.Bounds,
		"known_findings_hit":            known,
	}
	for k, v := range r.Extra {
		cov[k] = v
	}
	if len(r.Samples) == 0 {
		cov["samples"] = []any{"(no case recorded)"}
	}
	evd := map[string]any{
		"property_id": r.Prop,
		"tier":        r.Tier,
		"seed":        r.Seed,
		"level":       r.Level,
		"coverage":    cov,
		"assumptions": r.Assumptions,
		"wall_s":      wall,
		"violations":  r.violations,
	}
	if r.Assumptions == nil {
		evd["assumptions"] = []string{}
	}
	v := r.violations
	r.mu.Unlock()
	data, err := json.MarshalIndent(evd, "", " ")
	if err != nil {
		fmt.Fprintln(os.Stderr, "evidence marshal:", err)
		os.Exit(2)
	}
	dir := filepath.Join(OutRoot(), "evidence")
	_ = os.MkdirAll(dir, 0o755)
	tmp := filepath.Join(dir, fmt.Sprintf(".%s.%d.tmp", r.Prop, os.Getpid()))
	if err := os.WriteFile(tmp, data, 0o644); err != nil {
		fmt.Fprintln(os.Stderr, "evidence write:", err)
		os.Exit(2)
	}
	final := filepath.Join(dir, r.Prop+".json")
	if part := os.Getenv("VERIF_PART"); part != "" {
		_ = os.MkdirAll(filepath.Join(dir, "parts"), 0o755)
		final = filepath.Join(dir, "parts", r.Prop+"."+part+".json")
	}
	_ = os.Rename(tmp, final)
	fmt.Printf("%s %s: states=%d transitions=%d evaluations=%d distinct=%d exhaustive=%v violations=%d known=%d wall=%.1fs\n",
		r.Prop, r.Tier, r.States, r.Transitions, r.Evaluations, len(r.Distinct), r.Exhaustive, v, len(known), wall)
	if v > 0 {
		os.Exit(1)
	}
	os.Exit(0)
}

// Fatal is for internal errors of the harness itself (exit 2, never a VIOLATION).
func Fatal(format string, a ...any) {
	fmt.Fprintf(os.Stderr, "INTERNAL: "+format+"\n", a...)
	os.Exit(2)
}
