// Package chainsim is engine E1: explicit-state breadth-first search in which every transition
// is one real Chain.UpdateState inside a new real block on top of the explored state, with
// deduplication by a canonical form of the full state trie and monitors evaluated on every
// transition. Work is sharded over worker processes (the repository keeps process-global
// registries, and a panic inside a contract goroutine must only take down a worker).
package chainsim

import (
	"crypto/sha256"
	"encoding/hex"
	"encoding/json"
	"fmt"
	"os"
	"os/exec"
	"runtime"
	"runtime/pprof"
	"sort"
	"strconv"
	"strings"
	"time"

	"0chain.net/chaincore/state"
	"0chain.net/chaincore/transaction"
	"0chain.net/core/common"
	"0chain.net/smartcontract/dbs/event"
	"github.com/0chain/common/core/currency"
	"verif/lib/ev"
	"verif/lib/world"
)

// Ctx is what an action builder sees: the state it is applied to and the new block's time.
type Ctx struct {
	W   *world.World
	N   *SNode
	Now common.Timestamp
	Rnd int64
}

func (x *Ctx) Nonce(a *world.Actor) int64 {
	_, n := world.Balance(x.N.N.State, a.ID)
	return n
}
func (x *Ctx) Bal(id string) currency.Coin {
	b, _ := world.Balance(x.N.N.State, id)
	return b
}

// Action is one letter of the alphabet: it builds one transaction for the new block.
type Action struct {
	Name  string
	Dt    int64 // new block's creation date = parent's + Dt (default 1)
	Miner int   // generator (index into World.Miners)
	Build func(x *Ctx) *world.TxnSpec
	// Before (optional) returns transactions executed in the SAME block before the action's own
	// transaction (they must all be accepted); the block's Txns list holds them while the action's
	// transaction runs, as in a generated block. Monitors then see Step.PreLeaves / Step.Diff
	// relative to the state after these transactions.
	Before func(x *Ctx) []*world.TxnSpec
}

// SNode is an explored state.
type SNode struct {
	N      *world.Node
	Depth  int
	Path   []string
	Leaves []world.Leaf
	Key    string
}

// LeafDiff is a changed leaf.
type LeafDiff struct {
	Path     string
	Pre, Post []byte // nil = absent
}

// Step is one executed transition, handed to the monitors.
type Step struct {
	W      *world.World
	Pre    *SNode
	Post   *SNode // the new state; for a rejected transaction: the new block's (unchanged) state
	Action *Action
	Txn    *transaction.Transaction
	Err    error // non-nil: UpdateState rejected the transaction
	Events []event.Event
	Tap    []world.TapRec
	Diff   []LeafDiff
	// PreLeaves is the leaf set the action's own transaction was applied to: Pre.Leaves, or the
	// state after the Action.Before transactions of the same block.
	PreLeaves []world.Leaf
	BeforeTxns []*transaction.Transaction
	Tags   []string // monitors may tag a step; tags are counted into coverage.transition_outcomes as "tag:<t>"
}

// Tag counts a named observation about this step in the evidence.
func (s *Step) Tag(t string) { s.Tags = append(s.Tags, t) }

// Monitor checks one transition; v reports a violation (key = stable signature).
type Monitor func(s *Step, v func(key, what string))

// Explorer configures one search.
type Explorer struct {
	Run      *ev.Run
	W        *world.World
	Actions  []Action
	Roots    [][]Action // scripted prefixes producing the start states (nil = genesis only)
	Depth    int
	Monitors []Monitor
	Budget   time.Duration // wall-clock budget per worker (a budget, never an oracle)
	IgnoreTimeInKey bool   // dedup states that differ only in round/time (sound when no explored contract reads them)
	WarmCache bool         // keep the global state cache between transitions (default: cold cache per transition)
	Workers  int
}

type vio struct {
	Key, What string
	Path      []string
}

type shardOut struct {
	Transitions   int64    `json:"transitions"`
	Rejected      int64    `json:"rejected"`
	Keys          []string `json:"keys"`
	Violations    []vio    `json:"violations"`
	Samples       [][]string `json:"samples"`
	Capped        string   `json:"capped"`
	DepthDone     int      `json:"depth_done"`
	Outcomes      map[string]int64 `json:"outcomes"`
	Unclassified  int      `json:"unclassified"`
}

// DecodeAccount decodes an account leaf.
func DecodeAccount(v []byte) (*state.State, bool) {
	s := &state.State{}
	if _, err := s.UnmarshalMsg(v); err != nil {
		return nil, false
	}
	return s, true
}

func (e *Explorer) canon(n *world.Node, leaves []world.Leaf) string {
	h := sha256.New()
	for _, l := range leaves {
		h.Write([]byte(l.Path))
		h.Write([]byte{0})
		if world.Tap.IsAccount(l.Path) {
			if s, ok := DecodeAccount(l.Value); ok {
				fmt.Fprintf(h, "acct:%d:%d", s.Balance, s.Nonce)
				h.Write([]byte{1})
				continue
			}
		}
		h.Write(l.Value)
		h.Write([]byte{1})
	}
	if !e.IgnoreTimeInKey {
		fmt.Fprintf(h, "|%d|%d", n.Block.Round, n.Block.CreationDate)
	}
	return hex.EncodeToString(h.Sum(nil)[:10])
}

func diffLeaves(pre, post []world.Leaf) []LeafDiff {
	var out []LeafDiff
	i, j := 0, 0
	for i < len(pre) || j < len(post) {
		switch {
		case j >= len(post) || (i < len(pre) && pre[i].Path < post[j].Path):
			out = append(out, LeafDiff{Path: pre[i].Path, Pre: pre[i].Value})
			i++
		case i >= len(pre) || post[j].Path < pre[i].Path:
			out = append(out, LeafDiff{Path: post[j].Path, Post: post[j].Value})
			j++
		default:
			if string(pre[i].Value) != string(post[j].Value) {
				out = append(out, LeafDiff{Path: pre[i].Path, Pre: pre[i].Value, Post: post[j].Value})
			}
			i++
			j++
		}
	}
	return out
}

// apply executes action a on state s. Returns the step (Post always set).
func (e *Explorer) apply(s *SNode, a *Action) *Step {
	dt := a.Dt
	if dt == 0 {
		dt = 1
	}
	pb := s.N.Block
	x := &Ctx{W: e.W, N: s, Now: pb.CreationDate + common.Timestamp(dt), Rnd: pb.Round + 1}
	spec := a.Build(x)
	if spec == nil {
		return nil
	}
	if spec.Time == 0 {
		spec.Time = x.Now
	}
	if !e.WarmCache {
		e.W.Chain.SetupStateCache()
	}
	var before []*world.TxnSpec
	if a.Before != nil {
		before = a.Before(x)
	}
	nd := e.W.Open(s.N, x.Rnd, x.Now, e.W.Miners[a.Miner%len(e.W.Miners)], 1000+x.Rnd, strings.Join(s.Path, "/")+"/"+a.Name)
	preLeaves := s.Leaves
	var beforeTxns []*transaction.Transaction
	for _, bs := range before {
		if bs.Time == 0 {
			bs.Time = x.Now
		}
		bt := e.W.Txn(*bs)
		if _, err := e.W.Exec(nd, bt); err != nil {
			ev.Fatal("action %s: a Before transaction was rejected: %v", a.Name, err)
		}
		beforeTxns = append(beforeTxns, bt)
		nd.Block.Txns = nd.Txns
	}
	if len(before) > 0 {
		preLeaves = world.Leaves(nd.State)
	}
	t := e.W.Txn(*spec)
	world.Tap.Begin()
	evs, err := e.W.Exec(nd, t)
	tap := world.Tap.End()
	e.W.CloseBlock(nd)
	post := &SNode{N: nd, Depth: s.Depth + 1, Path: append(append([]string{}, s.Path...), a.Name)}
	post.Leaves = world.Leaves(nd.State)
	post.Key = e.canon(nd, post.Leaves)
	return &Step{W: e.W, Pre: s, Post: post, Action: a, Txn: t, Err: err, Events: evs, Tap: tap, Diff: diffLeaves(preLeaves, post.Leaves),
		PreLeaves: preLeaves, BeforeTxns: beforeTxns}
}

func (e *Explorer) root(script []Action, name string) *SNode {
	g := e.W.GenesisNode()
	s := &SNode{N: g, Path: []string{name}}
	s.Leaves = world.Leaves(g.State)
	for i := range script {
		st := e.apply(s, &script[i])
		if st == nil || st.Err != nil || st.Txn.Status != transaction.TxnSuccess {
			msg := "nil"
			if st != nil {
				msg = fmt.Sprintf("err=%v status=%d out=%s", st.Err, st.Txn.Status, st.Txn.TransactionOutput)
			}
			ev.Fatal("root script %s step %d (%s) failed: %s", name, i, script[i].Name, msg)
		}
		s = st.Post
		s.Depth = 0
	}
	s.Path = []string{name}
	s.Key = e.canon(s.N, s.Leaves)
	return s
}

// Explore runs the search (parent: spawns workers and merges; worker: explores its shard).
func (e *Explorer) Explore() {
	if os.Getenv("VERIF_SHARD") == "" {
		e.parent()
		return
	}
	e.worker()
}

func (e *Explorer) parent() {
	n := e.Workers
	if n == 0 {
		n = runtime.NumCPU()
	}
	bin := os.Getenv("VERIF_BIN")
	if bin == "" {
		bin, _ = os.Executable()
	}
	dir, err := os.MkdirTemp(ev.Root()+"/.work", "shards")
	if err != nil {
		ev.Fatal("mkdtemp: %v", err)
	}
	defer os.RemoveAll(dir)
	type res struct {
		i   int
		err error
		log string
	}
	ch := make(chan res, n)
	for i := 0; i < n; i++ {
		go func(i int) {
			cmd := exec.Command(bin, os.Args[1:]...)
			cmd.Env = append(os.Environ(), fmt.Sprintf("VERIF_SHARD=%d/%d", i, n), fmt.Sprintf("VERIF_SHARD_OUT=%s/%d.json", dir, i), "GOMAXPROCS=2")
			out, err := cmd.CombinedOutput()
			ch <- res{i, err, string(out)}
		}(i)
	}
	keys := map[string]struct{}{}
	depthDone := e.Depth
	outcomes := map[string]int64{}
	var rejected int64
	for k := 0; k < n; k++ {
		r := <-ch
		data, rerr := os.ReadFile(fmt.Sprintf("%s/%d.json", dir, r.i))
		if r.err != nil || rerr != nil {
			tail := r.log
			if len(tail) > 3000 {
				tail = tail[len(tail)-3000:]
			}
			journal, _ := os.ReadFile(fmt.Sprintf("%s/%d.json.journal", dir, r.i))
			e.handleCrash(r.i, string(journal), tail)
			continue
		}
		var so shardOut
		if err := json.Unmarshal(data, &so); err != nil {
			ev.Fatal("shard %d output: %v", r.i, err)
		}
		e.Run.Add(0, so.Transitions, so.Transitions)
		rejected += so.Rejected
		for _, k := range so.Keys {
			keys[k] = struct{}{}
		}
		for _, v := range so.Violations {
			e.Run.Violation(v.Key, v.What, map[string]any{"path": v.Path})
		}
		for _, s := range so.Samples {
			e.Run.Sample(s)
		}
		for k, c := range so.Outcomes {
			outcomes[k] += c
		}
		if so.Capped != "" {
			e.Run.Capped(fmt.Sprintf("shard %d: %s", r.i, so.Capped))
		}
		if so.DepthDone < depthDone {
			depthDone = so.DepthDone
		}
		if so.Unclassified > 0 {
			e.Run.Extra["unclassified_leaves"] = so.Unclassified
		}
	}
	for k := range keys {
		e.Run.Outcome(k)
	}
	e.Run.States = int64(len(keys))
	e.Run.Bounds["depth"] = e.Depth
	e.Run.Bounds["depth_fully_completed"] = depthDone
	e.Run.Bounds["alphabet_size"] = len(e.Actions)
	e.Run.Bounds["roots"] = len(e.Roots)
	e.Run.Extra["rejected_transactions"] = rejected
	e.Run.Extra["transition_outcomes"] = outcomes
	e.Run.Extra["workers"] = n
	names := make([]string, len(e.Actions))
	for i, a := range e.Actions {
		names[i] = a.Name
	}
	e.Run.Extra["alphabet"] = names
}

// handleCrash classifies a dead worker: the journal holds the action path it was executing.
func (e *Explorer) handleCrash(shard int, journal, tail string) {
	path := strings.TrimSpace(journal)
	sig := "other"
	for _, m := range []string{"Transfer assertion failed", "Mint assertion failed", "distribute rewards", "state context cache - get trie node"} {
		if strings.Contains(tail, m) {
			sig = m
		}
	}
	e.Run.Capped(fmt.Sprintf("worker %d died while executing [%s]", shard, path))
	panics, _ := e.Run.Extra["panics_observed"].([]map[string]string)
	first := tail
	if i := strings.Index(tail, "panic:"); i >= 0 {
		first = tail[i:]
	}
	if len(first) > 600 {
		first = first[:600]
	}
	e.Run.Extra["panics_observed"] = append(panics, map[string]string{"path": path, "class": sig, "message": first})
	if sig != "other" {
		e.Run.Violation(e.Run.Prop+":assertion-panic:"+sig, "the code's own assertion fired: "+first, map[string]any{"path": path})
	}
}

func (e *Explorer) worker() {
	var idx, n int
	if _, err := fmt.Sscanf(os.Getenv("VERIF_SHARD"), "%d/%d", &idx, &n); err != nil {
		ev.Fatal("bad VERIF_SHARD")
	}
	outPath := os.Getenv("VERIF_SHARD_OUT")
	if pf := os.Getenv("VERIF_CPUPROFILE"); pf != "" {
		f, _ := os.Create(pf)
		pprof.StartCPUProfile(f)
		defer pprof.StopCPUProfile()
	}
	journal, _ := os.Create(outPath + ".journal")
	deadline := time.Now().Add(e.Budget)
	so := shardOut{Outcomes: map[string]int64{}}
	seen := map[string]struct{}{}
	seed, _ := strconv.Atoi(os.Getenv("VERIF_SEED"))
	_ = seed

	var frontier []*SNode
	if len(e.Roots) == 0 {
		frontier = append(frontier, e.root(nil, "genesis"))
	}
	for i, r := range e.Roots {
		frontier = append(frontier, e.root(r, fmt.Sprintf("root%d", i)))
	}
	for _, s := range frontier {
		seen[s.Key] = struct{}{}
		if idx == 0 {
			so.Keys = append(so.Keys, s.Key)
		}
	}
	split := false
	so.DepthDone = 0
	for depth := 0; depth < e.Depth && len(frontier) > 0; depth++ {
		if !split && len(frontier) >= 4*n {
			var part []*SNode
			for i, s := range frontier {
				if i%n == idx {
					part = append(part, s)
				}
			}
			frontier = part
			split = true
		}
		report := split || idx == 0
		var next []*SNode
		capped := false
		for _, s := range frontier {
			for ai := range e.Actions {
				a := &e.Actions[ai]
				if time.Now().After(deadline) {
					capped = true
					break
				}
				if journal != nil {
					journal.Truncate(0)
					journal.WriteAt([]byte(strings.Join(s.Path, " ")+" "+a.Name), 0)
				}
				st := e.apply(s, a)
				if st == nil {
					continue
				}
				if report {
					so.Transitions++
					oc := "ok"
					if st.Err != nil {
						so.Rejected++
						oc = "rejected"
						if os.Getenv("VERIF_REJECT_REASONS") != "" { // debugging aid: why a transaction was rejected
							oc = fmt.Sprintf("rejected:%.160s", st.Err.Error())
						}
					} else if st.Txn.Status == transaction.TxnError {
						oc = "charged-failure"
					}
					so.Outcomes[a.Name+":"+oc]++
					for _, m := range e.Monitors {
						m(st, func(key, what string) {
							so.Violations = append(so.Violations, vio{Key: key, What: fmt.Sprintf("%s | after %v action %s | txn err=%v status=%d output=%.200s", what, s.Path, a.Name, st.Err, st.Txn.Status, st.Txn.TransactionOutput), Path: st.Post.Path})
						})
					}
					for _, t := range st.Tags {
						so.Outcomes["tag:"+t]++
					}
					if len(so.Samples) < 3 && st.Err == nil && depth >= 1 {
						so.Samples = append(so.Samples, st.Post.Path)
					}
				} else {
					// Levels above the split are expanded by every worker but reported by worker 0 only.
					// Monitors still see the transition (output discarded) so that a monitor carrying
					// per-path state (closure keyed by *SNode) has it for the states of its own shard.
					for _, m := range e.Monitors {
						m(st, func(key, what string) {})
					}
				}
				if st.Err != nil {
					continue
				}
				if _, ok := seen[st.Post.Key]; ok {
					continue
				}
				seen[st.Post.Key] = struct{}{}
				if report {
					so.Keys = append(so.Keys, st.Post.Key)
				}
				next = append(next, st.Post)
			}
			s.Leaves = nil // expanded: the leaf list is not needed any more (memory)
			if capped {
				break
			}
		}
		if capped {
			so.Capped = fmt.Sprintf("time budget %v hit at depth %d", e.Budget, depth+1)
			break
		}
		so.DepthDone = depth + 1
		frontier = next
	}
	if len(so.Violations) > 50 {
		so.Violations = dedupVios(so.Violations)
	}
	data, _ := json.Marshal(so)
	if err := os.WriteFile(outPath, data, 0o644); err != nil {
		ev.Fatal("write shard: %v", err)
	}
	pprof.StopCPUProfile()
	os.Exit(0)
}

func dedupVios(v []vio) []vio {
	m := map[string]bool{}
	var out []vio
	for _, x := range v {
		if !m[x.Key] {
			m[x.Key] = true
			out = append(out, x)
		}
	}
	sort.Slice(out, func(i, j int) bool { return out[i].Key < out[j].Key })
	return out
}
