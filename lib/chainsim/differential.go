package chainsim

import (
	"bytes"
	"encoding/json"
	"fmt"
	"os"
	"os/exec"
	"runtime"
	"strings"
	"time"

	"0chain.net/chaincore/transaction"
	"0chain.net/core/common"
	"github.com/0chain/common/core/statecache"
	"github.com/0chain/common/core/util"
	"verif/lib/ev"
)

// Env is one environment answer under which a transition is executed. The zero value is the
// reference environment (cold cache, default seams).
type Env struct {
	Name  string
	Class string // used in violation keys (defaults to Name); e.g. "maporder" for maporder1..5
	Cache *statecache.StateCache // nil = a fresh (cold) cache
	Setup func()                 // e.g. choose a map order / clock answer for the seams
	Reset func()
}

// Outcome is what the statements of C06/C07 compare across environments.
type Outcome struct {
	Err     string
	Status  int
	Output  string
	Root    string
	Changes int
	Events  string
}

func (o Outcome) String() string {
	return fmt.Sprintf("err=%q status=%d root=%s changes=%d output=%.160q events=%.120s", o.Err, o.Status, o.Root, o.Changes, o.Output, o.Events)
}

// applyEnv executes action a on s under env (no monitors); returns the post node and outcome.
func (e *Explorer) applyEnv(s *SNode, a *Action, env *Env, salt string) (*SNode, *Outcome) {
	dt := a.Dt
	if dt == 0 {
		dt = 1
	}
	pb := s.N.Block
	x := &Ctx{W: e.W, N: s, Now: pb.CreationDate + common.Timestamp(dt), Rnd: pb.Round + 1}
	spec := a.Build(x)
	if spec == nil {
		return nil, nil
	}
	if spec.Time == 0 {
		spec.Time = x.Now
	}
	sc := env.Cache
	if sc == nil {
		sc = statecache.NewStateCache()
	}
	if env.Setup != nil {
		env.Setup()
	}
	nd := e.W.OpenWith(s.N, x.Rnd, x.Now, e.W.Miners[a.Miner%len(e.W.Miners)], 1000+x.Rnd, strings.Join(s.Path, "/")+"/"+a.Name, sc) // same block hash in every environment
	if a.Before != nil { // transactions of the SAME block executed before the action's own (must be accepted)
		for _, bs := range a.Before(x) {
			if bs.Time == 0 {
				bs.Time = x.Now
			}
			if _, err := e.W.Exec(nd, e.W.Txn(*bs)); err != nil {
				ev.Fatal("action %s: a Before transaction was rejected: %v", a.Name, err)
			}
		}
	}
	t := e.W.Txn(*spec)
	evs, err := e.W.Exec(nd, t)
	e.W.CloseBlock(nd)
	if env.Reset != nil {
		env.Reset()
	}
	o := &Outcome{Status: t.Status, Output: t.TransactionOutput, Root: util.ToHex(nd.State.GetRoot()), Changes: nd.State.GetChangeCount()}
	if err != nil {
		o.Err = err.Error()
	}
	var eb bytes.Buffer
	for _, ev := range evs {
		d, _ := json.Marshal(ev.Data)
		fmt.Fprintf(&eb, "%d/%d/%s/%s;", ev.Type, ev.Tag, ev.Index, d)
	}
	o.Events = eb.String()
	post := &SNode{N: nd, Depth: s.Depth + 1, Path: append(append([]string{}, s.Path...), a.Name)}
	post.Leaves = nil
	return post, o
}

// Differential enumerates ALL action sequences up to Depth from every root (no deduplication:
// the cache lineage of a path is part of its state). Along each path the transition is executed
// in the reference environment (cold cache) — that run defines the successor — and again, on the
// same pre-state, in every environment returned by envs(pathCache); any difference in Outcome is
// reported through report(envName, step description, ref, alt).
type Differential struct {
	E      *Explorer
	Prop   string
	// Envs returns the alternative environments for one step; lineage is the warm cache that
	// has seen exactly the blocks of the current path (nil when WarmLineage is false).
	Envs        func(lineage *statecache.StateCache, shared *statecache.StateCache) []*Env
	WarmLineage bool
	KeyPrefix   string // violation key prefix, e.g. "C07:chain"
	// SharedPasses > 1 walks the whole tree again with the SAME shared cache: in the later passes a
	// block is executed after all of its siblings and cousins (a fork order a depth-first walk
	// cannot produce in its first pass).
	SharedPasses int
	// ShardDepth is the tree level at which the work is split over the worker processes (default 0).
	// With 1, every worker executes all first-level blocks (so that its shared cache has seen every
	// sibling fork) and the subtrees below them are split.
	ShardDepth int
}

type diffOut struct {
	Steps      int64             `json:"steps"`
	Execs      int64             `json:"execs"`
	Paths      int64             `json:"paths"`
	Violations []vio             `json:"violations"`
	Outcomes   map[string]int64  `json:"outcomes"`
	Distinct   map[string]int64  `json:"distinct"`
	Capped     string            `json:"capped"`
	Samples    [][]string        `json:"samples"`
}

// Run executes the differential exploration (parent spawns workers; worker explores its shard).
func (d *Differential) Run() {
	if os.Getenv("VERIF_SHARD") == "" {
		d.parent()
		return
	}
	d.worker()
}

func (d *Differential) parent() {
	e := d.E
	n := e.Workers
	if n == 0 {
		n = runtime.NumCPU()
	}
	bin := os.Getenv("VERIF_BIN")
	if bin == "" {
		bin, _ = os.Executable()
	}
	dir, err := os.MkdirTemp(ev.Root()+"/.work", "dshards")
	if err != nil {
		ev.Fatal("mkdtemp: %v", err)
	}
	defer os.RemoveAll(dir)
	type res struct {
		i   int
		err error
		log string
	}
	ch := make(chan res, n)
	for i := 0; i < n; i++ {
		go func(i int) {
			cmd := exec.Command(bin, os.Args[1:]...)
			cmd.Env = append(os.Environ(), fmt.Sprintf("VERIF_SHARD=%d/%d", i, n), fmt.Sprintf("VERIF_SHARD_OUT=%s/%d.json", dir, i), "GOMAXPROCS=2")
			out, err := cmd.CombinedOutput()
			ch <- res{i, err, string(out)}
		}(i)
	}
	outcomes := map[string]int64{}
	for k := 0; k < n; k++ {
		r := <-ch
		data, rerr := os.ReadFile(fmt.Sprintf("%s/%d.json", dir, r.i))
		if r.err != nil || rerr != nil {
			tail := r.log
			if len(tail) > 3000 {
				tail = tail[len(tail)-3000:]
			}
			journal, _ := os.ReadFile(fmt.Sprintf("%s/%d.json.journal", dir, r.i))
			e.handleCrash(r.i, string(journal), tail)
			continue
		}
		var so diffOut
		if err := json.Unmarshal(data, &so); err != nil {
			ev.Fatal("shard %d output: %v", r.i, err)
		}
		e.Run.Add(0, so.Steps, so.Execs)
		for _, v := range so.Violations {
			e.Run.Violation(v.Key, v.What, map[string]any{"path": v.Path})
		}
		for k, c := range so.Outcomes {
			outcomes[k] += c
		}
		for k := range so.Distinct {
			e.Run.Outcome(k)
		}
		for _, s := range so.Samples {
			e.Run.Sample(s)
		}
		if so.Capped != "" {
			e.Run.Capped(fmt.Sprintf("shard %d: %s", r.i, so.Capped))
		}
	}
	e.Run.States = int64(len(e.Run.Distinct))
	e.Run.Bounds["depth"] = e.Depth
	e.Run.Bounds["alphabet_size"] = len(e.Actions)
	e.Run.Extra["transition_outcomes"] = outcomes
	names := make([]string, len(e.Actions))
	for i, a := range e.Actions {
		names[i] = a.Name
	}
	e.Run.Extra["alphabet"] = names
}

func (d *Differential) worker() {
	e := d.E
	var idx, n int
	if _, err := fmt.Sscanf(os.Getenv("VERIF_SHARD"), "%d/%d", &idx, &n); err != nil {
		ev.Fatal("bad VERIF_SHARD")
	}
	outPath := os.Getenv("VERIF_SHARD_OUT")
	journal, _ := os.Create(outPath + ".journal")
	deadline := time.Now().Add(e.Budget)
	so := diffOut{Outcomes: map[string]int64{}, Distinct: map[string]int64{}}
	shared := statecache.NewStateCache() // one cache that sees every block this worker executes (forks included)
	// root scripts are executed into the shared cache too (a node's cache has seen its whole chain)
	mkRoot := func(script []Action, name string) *SNode {
		g := e.W.GenesisNode()
		cur := &SNode{N: g, Path: []string{name}}
		for i := range script {
			p, o := e.applyEnv(cur, &script[i], &Env{Cache: shared}, "")
			if p == nil || o.Err != "" || o.Status != transaction.TxnSuccess {
				ev.Fatal("root script %s step %d (%s) failed: %v", name, i, script[i].Name, o)
			}
			cur = p
		}
		cur.Path = []string{name}
		cur.Depth = 0
		return cur
	}
	var roots []*SNode
	scriptOf := map[*SNode][]Action{}
	if len(e.Roots) == 0 {
		roots = append(roots, mkRoot(nil, "genesis"))
	}
	for i, r := range e.Roots {
		rn := mkRoot(r, fmt.Sprintf("root%d", i))
		scriptOf[rn] = r
		roots = append(roots, rn)
	}
	counter := 0
	pass := 0
	capped := false
	// rec explores all extensions of the path ending in s; lineage has seen exactly this path.
	// Because a StateCache cannot be cloned, the lineage of a child is rebuilt by re-executing the
	// path into a fresh cache (depth is small).
	var rec func(s *SNode, acts []*Action, depth int)
	rebuild := func(root *SNode, acts []*Action) (*SNode, *statecache.StateCache) {
		lin := statecache.NewStateCache()
		cur := root
		// the lineage cache has seen the root's own blocks too (a node that executed the whole chain):
		// a value written by the root script is cached when the explored sequence starts
		if script := scriptOf[root]; len(script) > 0 {
			cur = &SNode{N: e.W.GenesisNode()}
			for i := range script {
				p, _ := e.applyEnv(cur, &script[i], &Env{Cache: lin}, fmt.Sprintf("#linroot%d", i))
				if p == nil {
					ev.Fatal("lineage rebuild: root script step %d failed", i)
				}
				cur = p
			}
		}
		for i, a := range acts {
			p, _ := e.applyEnv(cur, a, &Env{Cache: lin}, fmt.Sprintf("#lin%d", i))
			cur = p
		}
		return cur, lin
	}
	var rootOf *SNode
	rec = func(s *SNode, acts []*Action, depth int) {
		if depth == e.Depth || capped {
			return
		}
		for ai := range e.Actions {
			a := &e.Actions[ai]
			if depth == d.ShardDepth {
				counter++
				if counter%n != idx {
					continue
				}
			}
			report := depth >= d.ShardDepth || idx == 0 // shared levels are reported by worker 0 only
			if time.Now().After(deadline) {
				capped = true
				return
			}
			if journal != nil {
				journal.Truncate(0)
				journal.WriteAt([]byte(strings.Join(s.Path, " ")+" "+a.Name), 0)
			}
			ref, ro := e.applyEnv(s, a, &Env{}, "")
			if ref == nil {
				continue
			}
			if report {
				so.Steps++
			}
			so.Execs++
			oc := "ok"
			if ro.Err != "" {
				oc = "rejected"
			} else if ro.Status == transaction.TxnError {
				oc = "charged-failure"
			}
			if report {
				so.Outcomes[a.Name+":"+oc]++
				so.Distinct[ro.Root+"|"+ro.Output]++
			}
			var lineage *statecache.StateCache
			if d.WarmLineage && pass == 0 {
				_, lineage = rebuild(rootOf, acts)
				so.Execs += int64(len(acts))
			}
			for _, env := range d.Envs(lineage, shared) {
				if pass > 0 && env.Cache != shared {
					continue
				}
				_, ao := e.applyEnv(s, a, env, "#"+env.Name)
				so.Execs++
				if ao == nil {
					continue
				}
				if *ao != *ro && report {
					field := "root"
					switch {
					case ao.Err != ro.Err:
						field = "error"
					case ao.Status != ro.Status:
						field = "status"
					case ao.Output != ro.Output:
						field = "output"
					case ao.Root != ro.Root:
						field = "root"
					case ao.Changes != ro.Changes:
						field = "change-count"
					default:
						field = "events"
					}
					so.Violations = append(so.Violations, vio{
						Key:  fmt.Sprintf("%s:%s%s:%s-differs:%s", d.KeyPrefix, envClass(env), map[bool]string{false: "", true: "-after-all-forks"}[pass > 0], field, stripArgs(a.Name)),
						What: fmt.Sprintf("after %v action %s: reference {%s} vs %s {%s}", s.Path, a.Name, ro, env.Name, ao),
						Path: ref.Path})
				}
			}
			if len(so.Samples) < 2 && depth >= 1 {
				so.Samples = append(so.Samples, ref.Path)
			}
			if ro.Err == "" {
				rec(ref, append(append([]*Action{}, acts...), a), depth+1)
			}
		}
		if depth == 0 {
			so.Paths++
		}
	}
	passes := d.SharedPasses
	if passes < 1 {
		passes = 1
	}
	for pass = 0; pass < passes; pass++ {
		counter = 0
		for _, r := range roots {
			rootOf = r
			rec(r, nil, 0)
		}
	}
	if capped {
		so.Capped = fmt.Sprintf("time budget %v hit", e.Budget)
	}
	so.Violations = dedupVios(so.Violations)
	data, _ := json.Marshal(so)
	if err := os.WriteFile(outPath, data, 0o644); err != nil {
		ev.Fatal("write shard: %v", err)
	}
	os.Exit(0)
}

func stripArgs(n string) string {
	if i := strings.IndexByte(n, '('); i >= 0 {
		return n[:i]
	}
	return n
}

func envClass(e *Env) string {
	if e.Class != "" {
		return e.Class
	}
	return e.Name
}
