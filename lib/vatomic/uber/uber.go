// Package atomic is a stand-in for the subset of go.uber.org/atomic used by repository packages
// (Bool, Int32, Int64, Uint32, Uint64 and their constructors): every operation is a scheduling
// point of the controlled scheduler followed by the real operation of go.uber.org/atomic.
package atomic

import (
	ua "go.uber.org/atomic"

	"verif/lib/vsync"
)

func pt() { vsync.SchedPoint(vsync.OpAtomic) }

type Bool struct{ v ua.Bool }

func NewBool(val bool) *Bool                      { x := &Bool{}; x.v.Store(val); return x }
func (x *Bool) Load() bool                        { pt(); return x.v.Load() }
func (x *Bool) Store(val bool)                    { pt(); x.v.Store(val) }
func (x *Bool) Swap(val bool) bool                { pt(); return x.v.Swap(val) }
func (x *Bool) CAS(old, new bool) bool            { pt(); return x.v.CompareAndSwap(old, new) }
func (x *Bool) Toggle() bool                      { pt(); return x.v.Toggle() }
func (x *Bool) CompareAndSwap(old, new bool) bool { pt(); return x.v.CompareAndSwap(old, new) }

type Int32 struct{ v ua.Int32 }

func NewInt32(val int32) *Int32                     { x := &Int32{}; x.v.Store(val); return x }
func (x *Int32) Load() int32                        { pt(); return x.v.Load() }
func (x *Int32) Store(val int32)                    { pt(); x.v.Store(val) }
func (x *Int32) Swap(val int32) int32               { pt(); return x.v.Swap(val) }
func (x *Int32) Add(d int32) int32                  { pt(); return x.v.Add(d) }
func (x *Int32) Sub(d int32) int32                  { pt(); return x.v.Sub(d) }
func (x *Int32) Inc() int32                         { pt(); return x.v.Inc() }
func (x *Int32) Dec() int32                         { pt(); return x.v.Dec() }
func (x *Int32) CAS(old, new int32) bool            { pt(); return x.v.CompareAndSwap(old, new) }
func (x *Int32) CompareAndSwap(old, new int32) bool { pt(); return x.v.CompareAndSwap(old, new) }

type Int64 struct{ v ua.Int64 }

func NewInt64(val int64) *Int64                     { x := &Int64{}; x.v.Store(val); return x }
func (x *Int64) Load() int64                        { pt(); return x.v.Load() }
func (x *Int64) Store(val int64)                    { pt(); x.v.Store(val) }
func (x *Int64) Swap(val int64) int64               { pt(); return x.v.Swap(val) }
func (x *Int64) Add(d int64) int64                  { pt(); return x.v.Add(d) }
func (x *Int64) Sub(d int64) int64                  { pt(); return x.v.Sub(d) }
func (x *Int64) Inc() int64                         { pt(); return x.v.Inc() }
func (x *Int64) Dec() int64                         { pt(); return x.v.Dec() }
func (x *Int64) CAS(old, new int64) bool            { pt(); return x.v.CompareAndSwap(old, new) }
func (x *Int64) CompareAndSwap(old, new int64) bool { pt(); return x.v.CompareAndSwap(old, new) }

type Uint32 struct{ v ua.Uint32 }

func NewUint32(val uint32) *Uint32                    { x := &Uint32{}; x.v.Store(val); return x }
func (x *Uint32) Load() uint32                        { pt(); return x.v.Load() }
func (x *Uint32) Store(val uint32)                    { pt(); x.v.Store(val) }
func (x *Uint32) Swap(val uint32) uint32              { pt(); return x.v.Swap(val) }
func (x *Uint32) Add(d uint32) uint32                 { pt(); return x.v.Add(d) }
func (x *Uint32) Sub(d uint32) uint32                 { pt(); return x.v.Sub(d) }
func (x *Uint32) Inc() uint32                         { pt(); return x.v.Inc() }
func (x *Uint32) Dec() uint32                         { pt(); return x.v.Dec() }
func (x *Uint32) CAS(old, new uint32) bool            { pt(); return x.v.CompareAndSwap(old, new) }
func (x *Uint32) CompareAndSwap(old, new uint32) bool { pt(); return x.v.CompareAndSwap(old, new) }

type Uint64 struct{ v ua.Uint64 }

func NewUint64(val uint64) *Uint64                    { x := &Uint64{}; x.v.Store(val); return x }
func (x *Uint64) Load() uint64                        { pt(); return x.v.Load() }
func (x *Uint64) Store(val uint64)                    { pt(); x.v.Store(val) }
func (x *Uint64) Swap(val uint64) uint64              { pt(); return x.v.Swap(val) }
func (x *Uint64) Add(d uint64) uint64                 { pt(); return x.v.Add(d) }
func (x *Uint64) Sub(d uint64) uint64                 { pt(); return x.v.Sub(d) }
func (x *Uint64) Inc() uint64                         { pt(); return x.v.Inc() }
func (x *Uint64) Dec() uint64                         { pt(); return x.v.Dec() }
func (x *Uint64) CAS(old, new uint64) bool            { pt(); return x.v.CompareAndSwap(old, new) }
func (x *Uint64) CompareAndSwap(old, new uint64) bool { pt(); return x.v.CompareAndSwap(old, new) }
