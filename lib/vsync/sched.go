// Package vsync is (1) an API-identical stand-in for the parts of package sync used by the
// repository packages that are explored under the controlled scheduler, and (2) that scheduler
// (engine E2 of DESIGN.md §1.4): a cooperative scheduler for "managed threads" (real goroutines of
// which exactly one runs at a time) plus a stateless depth-first explorer with iterative
// preemption bounding (explore.go).
//
// A repository package is routed here by the `sync` seam (tools/seamgen): `import "sync"` becomes
// `import sync "verif/lib/vsync"`. The rewritten package is part of EVERY check binary, therefore:
// while no exploration is active (mode == modeOff) every primitive forwards straight to the real
// one it wraps (one predictable branch of overhead).
//
// Race-detector transparency. Hand-off between managed threads uses plain loads/stores in
// //go:norace functions plus runtime.Gosched(); all bookkeeping (model state of the primitives,
// enabled sets, recorded points) is touched only inside //go:norace functions and uses no
// synchronisation primitive. So the scheduler adds NO happens-before edge between two managed
// threads; the only edges the detector sees are those of the program's own primitives (each shim
// really performs the wrapped operation once the model says it cannot block). Real edges exist
// only at: thread spawn (a real `go`, as in the program), thread end -> controller (exitCh), and
// execution end -> controller (doneCh); they order "this execution -> next execution", never two
// threads of one execution.
//
// Two lessons built in: (1) nothing that runs inside a managed thread on behalf of the engine may
// use fmt or any other sync.Pool client (the detector turns a Pool hand-over into a happens-before
// edge, randomly dropped 1 in 4: tracing used to hide races from it at random) - traces record
// program counters only and are formatted by the controller; (2) a thread whose function has
// returned stays alive (linger) until the execution is collected, so that the detector keeps the
// access history of every thread of the execution.
package vsync

import (
	"fmt"
	"os"
	"runtime"
	"runtime/debug"
	"strings"
	"unsafe"
)

const (
	modeOff    = 0 // no exploration: pass-through
	modeOn     = 1 // an execution is running under the scheduler
	modeUnwind = 2 // threads of an aborted execution are being unwound: every shim is a no-op
)

var (
	mode int32  // written by the controller only
	cur  *sched // scheduler of the running execution
)

// Fatal reports an internal error of the engine (never a verdict about the code under test).
var Fatal = func(msg string) {
	fmt.Fprintln(os.Stderr, "INTERNAL: vsync: "+msg)
	os.Exit(2)
}

//go:norace
func on() bool { return mode != modeOff }

//go:norace
func unwinding() bool { return mode == modeUnwind }

//go:norace
func setMode(m int32) { mode = m }

// Active reports whether the caller runs under the controlled scheduler.
func Active() bool { return on() }

// Operation kinds (what a thread is about to do at a scheduling point).
const (
	OpStart = iota
	OpSpawn
	OpYield
	OpAtomic
	OpLock
	OpUnlock
	OpTryLock
	OpRLock
	OpRUnlock
	OpWAnnounce // RWMutex.Lock step 1: announce the writer (excludes later readers)
	OpWLock     // RWMutex.Lock step 2: wait for the readers to drain
	OpWUnlock
	OpWGAdd
	OpWGWait
	OpOnce
	OpCondWait
	OpCondSignal
	OpUser
)

var opNames = [...]string{"start", "go", "yield", "atomic", "Lock", "Unlock", "TryLock", "RLock", "RUnlock",
	"Lock(announce)", "Lock(acquire)", "Unlock(w)", "wg.Add", "wg.Wait", "once.Do", "cond.Wait", "cond.Signal", "user"}

// OpName names an operation kind.
func OpName(k int) string {
	if k >= 0 && k < len(opNames) {
		return opNames[k]
	}
	return "?"
}

type thread struct {
	id      int
	s       *sched
	started bool
	done    bool
	abandon bool // set by the controller: leave through runtime.Goexit
	gone    bool // goroutine has left (normally, by panic, or by Goexit)
	kind    int  // pending operation
	obj     unsafe.Pointer
}

// Point is one scheduling point at which at least two threads were enabled.
type Point struct {
	Enabled             []int `json:"enabled"` // canonical order: running thread first if still enabled, then ascending ids
	RunningStillEnabled bool  `json:"running_enabled"`
	Running             int   `json:"running"`
}

// Step is one executed operation (recorded only when tracing).
type Step struct {
	T     int         `json:"t"`
	Op    string      `json:"op"`
	Where string      `json:"at,omitempty"`
	pcs   [12]uintptr // resolved to Where by the controller after the execution
	npc   int
}

func (s Step) String() string { return fmt.Sprintf("T%d %s %s", s.T, s.Op, s.Where) }

type sched struct {
	threads []*thread
	cur     *thread
	prefix  []int
	expect  []Point
	points  []Point
	choices []int
	steps   int
	horizon int
	hash    uint64
	clock   int64

	finished bool
	deadlock bool
	overrun  bool
	blocked  []Blocked
	panicMsg string
	diverged string
	result   any

	tracing bool
	trace   []Step
	probe   func()

	exitCh   chan int
	doneCh   chan struct{}
	lingerCh chan struct{}
}

//go:norace
func newSched(prefix []int, expect []Point, horizon int, tracing bool) *sched {
	s := &sched{prefix: prefix, expect: expect, horizon: horizon, tracing: tracing, hash: 1469598103934665603}
	s.exitCh = make(chan int, 64)
	s.doneCh = make(chan struct{}, 4)
	s.lingerCh = make(chan struct{})
	return s
}

//go:norace
func (s *sched) newThread() *thread {
	t := &thread{id: len(s.threads), s: s, kind: OpStart}
	s.threads = append(s.threads, t)
	return t
}

//go:norace
func (s *sched) enabled(t *thread) bool {
	if t.done {
		return false
	}
	switch t.kind {
	case OpLock:
		return !(*Mutex)(t.obj).held
	case OpRLock:
		return (*RWMutex)(t.obj).w == 0
	case OpWAnnounce:
		return (*RWMutex)(t.obj).w == 0
	case OpWLock:
		return (*RWMutex)(t.obj).r == 0
	case OpWGWait:
		return (*WaitGroup)(t.obj).n <= 0
	case OpOnce:
		return (*Once)(t.obj).state != onceRunning
	case OpCondWait:
		return (*condWaiter)(t.obj).signaled
	}
	return true
}

// finish ends the execution (called by a managed thread or its exit path).
//
//go:norace
func (s *sched) finish() {
	if s.finished {
		return
	}
	s.finished = true
	s.doneCh <- struct{}{}
}

// Blocked describes one thread of a deadlocked execution: what it waits for and who holds it.
type Blocked struct {
	Thread       int    `json:"thread"`
	Op           string `json:"op"`
	HolderThread int    `json:"holder_thread"` // -1 unknown
	HolderTick   int64  `json:"holder_tick"`   // logical time (Tick clock) at which the holder acquired it
}

func (b Blocked) String() string {
	if b.HolderThread < 0 {
		return fmt.Sprintf("T%d blocked in %s", b.Thread, b.Op)
	}
	return fmt.Sprintf("T%d blocked in %s (held by T%d since t=%d)", b.Thread, b.Op, b.HolderThread, b.HolderTick)
}

//go:norace
func (s *sched) describeBlocked() {
	for _, t := range s.threads {
		if t.done {
			continue
		}
		b := Blocked{Thread: t.id, Op: OpName(t.kind), HolderThread: -1}
		switch t.kind {
		case OpLock:
			h := (*Mutex)(t.obj).own
			b.HolderThread, b.HolderTick = h.thread, h.tick
		case OpRLock, OpWAnnounce:
			h := (*RWMutex)(t.obj).own
			b.HolderThread, b.HolderTick = h.thread, h.tick
		case OpWLock:
			h := (*RWMutex)(t.obj).rd
			b.HolderThread, b.HolderTick = h.thread, h.tick
		}
		s.blocked = append(s.blocked, b)
	}
}

func itoa(i int) string { return fmt.Sprint(i) }

// pick decides which thread runs next. t is the running thread (possibly finished or about to
// block). Returns nil when the execution is over (all done, deadlock, divergence, horizon).
//
//go:norace
func (s *sched) pick(t *thread) *thread {
	var buf [16]int
	en := buf[:0]
	self := s.enabled(t)
	yielding := self && t.kind == OpYield
	if self && !yielding {
		en = append(en, t.id)
	}
	for _, o := range s.threads {
		if o != t && s.enabled(o) {
			en = append(en, o.id)
		}
	}
	if yielding { // a yielding thread goes last; switching away from it is free
		en = append(en, t.id)
		self = len(en) == 1
	}
	if len(en) == 0 {
		for _, o := range s.threads {
			if !o.done {
				s.deadlock = true
			}
		}
		if s.deadlock {
			s.describeBlocked()
		}
		return nil
	}
	if s.steps >= s.horizon {
		s.overrun = true
		return nil
	}
	if len(en) == 1 {
		return s.threads[en[0]]
	}
	i := len(s.points)
	p := Point{Enabled: append([]int(nil), en...), RunningStillEnabled: self, Running: t.id}
	if i < len(s.expect) && i < len(s.prefix) {
		q := s.expect[i]
		same := len(q.Enabled) == len(p.Enabled) && q.RunningStillEnabled == p.RunningStillEnabled
		if same {
			for k := range q.Enabled {
				if q.Enabled[k] != p.Enabled[k] {
					same = false
				}
			}
		}
		if !same {
			s.diverged = "replay diverged at point " + itoa(i) + ": enabled set differs from the recorded one"
			return nil
		}
	}
	c := 0
	if i < len(s.prefix) {
		c = s.prefix[i]
		if c < 0 || c >= len(en) {
			s.diverged = "schedule choice " + itoa(c) + " out of range at point " + itoa(i) + " (" + itoa(len(en)) + " enabled)"
			return nil
		}
	}
	s.points = append(s.points, p)
	s.choices = append(s.choices, c)
	return s.threads[en[c]]
}

// wait parks the calling thread until it is scheduled (or abandoned).
//
//go:norace
func (t *thread) wait() {
	s := t.s
	for s.cur != t {
		if t.abandon {
			runtime.Goexit()
		}
		runtime.Gosched()
	}
	if t.abandon {
		runtime.Goexit()
	}
}

//go:norace
func (s *sched) record(t *thread) {
	s.steps++
	s.hash = (s.hash ^ uint64(t.id*32+t.kind+1)) * 1099511628211
	if s.tracing {
		// Only program counters are captured here. Formatting them (fmt, sync.Pool: the race detector
		// models a Pool hand-over as a happens-before edge, and randomly) must not happen inside a
		// managed thread, or tracing would order the threads and hide races from the detector.
		st := Step{T: t.id, Op: OpName(t.kind)}
		st.npc = runtime.Callers(3, st.pcs[:])
		s.trace = append(s.trace, st)
	}
}

// point is a scheduling point: the running thread announces its next operation; the scheduler
// decides who runs; point returns when the calling thread has been chosen to perform it.
//
//go:norace
func (s *sched) point(kind int, obj unsafe.Pointer) {
	t := s.cur
	if t == nil {
		Fatal("a primitive of a rewritten package was used by a goroutine that is not a managed thread while an exploration is running")
	}
	t.kind, t.obj = kind, obj
	next := s.pick(t)
	if next == nil {
		s.finish()
		s.cur = nil
		t.wait() // never scheduled again: leaves through Goexit when the controller unwinds
		return
	}
	if next != t {
		s.cur = next
		t.wait()
	}
	s.record(t)
	if s.probe != nil {
		s.probe()
	}
}

// exit is called by a thread whose function has returned.
//
//go:norace
func (s *sched) exit(t *thread) {
	t.done = true
	next := s.pick(t)
	if next == nil {
		s.finish()
		s.cur = nil
		return
	}
	s.cur = next
}

//go:norace
func (s *sched) panicked(t *thread, msg string) {
	t.done = true
	if s.panicMsg == "" {
		s.panicMsg = msg
	}
	s.finish()
	s.cur = nil
}

//go:norace
func (t *thread) setGone() { t.gone = true }

//go:norace
func (t *thread) isGone() bool { return t.gone }

//go:norace
func (t *thread) setAbandon() { t.abandon = true }

//go:norace
func (t *thread) markStarted() { t.started = true; t.s.record(t) }

func (t *thread) main(f func()) {
	normal := false
	defer func() {
		r := recover()
		if !normal && r != nil {
			t.s.panicked(t, fmt.Sprintf("panic: %v\n%s", r, trimStack(debug.Stack())))
		}
		t.setGone()
	}()
	t.wait()
	t.markStarted()
	f()
	normal = true
	t.s.exitCh <- t.id // real edge: everything this thread did happens-before the controller's drain
	t.s.exit(t)
	// Stay alive until the controller has collected the execution: the race detector can only report
	// a race with an access of a goroutine whose history it still has, and the history of a goroutine
	// that has ended may be recycled at any moment (reports would come and go from run to run).
	t.linger()
}

// linger blocks (no spinning) until the controller collects the execution. The close of lingerCh
// is a real edge controller -> this goroutine's tail, after its last operation: it orders nothing.
func (t *thread) linger() { <-t.s.lingerCh }

func trimStack(b []byte) string {
	lines := strings.Split(string(b), "\n")
	var out []string
	for i := 0; i < len(lines); i++ {
		l := lines[i]
		if strings.Contains(l, "0chain.net/") && !strings.HasPrefix(strings.TrimSpace(l), "/") {
			out = append(out, strings.TrimSpace(l))
			if i+1 < len(lines) {
				out = append(out, "    "+strings.TrimSpace(lines[i+1]))
			}
		}
		if len(out) >= 12 {
			break
		}
	}
	return strings.Join(out, "\n")
}

// resolve names the first caller frame outside the engine packages (run by the controller).
func (st *Step) resolve() {
	if st.npc == 0 {
		return
	}
	frames := runtime.CallersFrames(st.pcs[:st.npc])
	for {
		f, more := frames.Next()
		if f.Function != "" && !strings.HasPrefix(f.Function, "verif/lib/vsync.") && !strings.HasPrefix(f.Function, "verif/lib/vatomic.") &&
			!strings.HasPrefix(f.Function, "verif/lib/vatomic/uber.") && !strings.HasPrefix(f.Function, "runtime.") {
			fn := f.Function
			if i := strings.LastIndex(fn, "/"); i >= 0 {
				fn = fn[i+1:]
			}
			file := f.File
			if i := strings.LastIndex(file, "/"); i >= 0 {
				file = file[i+1:]
			}
			st.Where = fmt.Sprintf("%s (%s:%d)", fn, file, f.Line)
			return
		}
		if !more {
			return
		}
	}
}

// ---- operations available to rewritten code and to harnesses ------------------------------------

// Go starts f as a new managed thread (the rewrite of a `go` statement). Outside an exploration
// it is a plain `go f()`.
func Go(f func()) {
	if !on() {
		go f()
		return
	}
	if unwinding() {
		return
	}
	spawn(f)
}

func spawn(f func()) {
	s := getCur()
	s.point(OpSpawn, nil)
	t := s.newThread()
	go t.main(f)
}

// Spawn starts several managed threads at ONE scheduling point (harness convenience: the threads
// of a scenario come into existence together, so no schedule is spent on "T1 runs before T2 exists").
func Spawn(fs ...func()) {
	if !on() {
		for _, f := range fs {
			go f()
		}
		return
	}
	if unwinding() {
		return
	}
	s := getCur()
	s.point(OpSpawn, nil)
	for _, f := range fs {
		t := s.newThread()
		go t.main(f)
	}
}

//go:norace
func getCur() *sched { return cur }

// Yield is a scheduling point for spin/poll loops: the caller is de-prioritised.
func Yield() {
	if !on() {
		runtime.Gosched()
		return
	}
	if unwinding() {
		return
	}
	getCur().point(OpYield, nil)
}

// SchedPoint is a plain scheduling point (used by vatomic before every atomic operation).
func SchedPoint(kind int) {
	if !on() || unwinding() {
		return
	}
	getCur().point(kind, nil)
}

// ThreadID is the id of the running managed thread (0 = the harness body), -1 outside.
//
//go:norace
func ThreadID() int {
	if mode != modeOn || cur == nil || cur.cur == nil {
		return -1
	}
	return cur.cur.id
}

// Tick returns a strictly increasing logical time stamp of the running execution (no scheduling
// point). Harnesses use it to time-stamp call/return events.
//
//go:norace
func Tick() int64 {
	if mode != modeOn || cur == nil {
		return 0
	}
	cur.clock++
	return cur.clock
}

// SetProbe installs a harness callback that runs (in the running thread, without any scheduling
// point) immediately before every operation of the execution is performed, i.e. between any two
// visible operations; harnesses use it to sample the state of the object under test at the finest
// granularity the scheduler has. Not for race builds (the callback reads shared state).
//
//go:norace
func SetProbe(f func()) {
	if mode == modeOn && cur != nil {
		cur.probe = f
	}
}

// SetResult publishes the harness's per-execution observation object to the controller.
//
//go:norace
func SetResult(v any) {
	if mode == modeOn && cur != nil {
		cur.result = v
	}
}
