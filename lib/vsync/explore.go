package vsync

import (
	"fmt"
	"runtime"
	"time"
)

// Execution is what one complete run of the harness body under one schedule produced.
type Execution struct {
	Choices  []int     `json:"choices"` // choice index at every recorded point (points with >= 2 enabled threads)
	Points   []Point   `json:"-"`
	Steps    int       `json:"steps"`
	Threads  int       `json:"threads"`
	Deadlock bool      `json:"deadlock,omitempty"`
	Blocked  []Blocked `json:"blocked,omitempty"`
	Panic    string    `json:"panic,omitempty"`
	Overrun  bool      `json:"overrun,omitempty"`
	Hash     uint64    `json:"hash"` // fingerprint of the executed (thread, operation) sequence
	Trace    []Step    `json:"trace,omitempty"`
	Result   any       `json:"-"`
}

// Preemptions counts the preemptions spent in choices[:n].
func (x *Execution) preemptionsBefore(n int) int {
	c := 0
	for i := 0; i < n && i < len(x.Choices); i++ {
		if x.Choices[i] != 0 && x.Points[i].RunningStillEnabled {
			c++
		}
	}
	return c
}

// Preemptions is the number of preemptions of the whole schedule.
func (x *Execution) Preemptions() int { return x.preemptionsBefore(len(x.Choices)) }

// Explorer enumerates, depth first and without storing states, every schedule of Body with at most
// MaxBound preemptions (iteratively: bound 0, then 1, ...). Body runs as managed thread 0; it
// builds a FRESH world, spawns the other threads with Go and joins them with a vsync.WaitGroup.
type Explorer struct {
	Body      func()
	Check     func(x *Execution) // oracle; called once per distinct schedule, by the controller, after the execution
	Before    func(prefix []int) // called before every execution (schedule journal)
	MaxBound  int
	Horizon   int         // max operations per execution (default 100000)
	Stop      func() bool // budget: when it returns true the exploration stops and Capped is set
	Execs     []int64     // executions run per bound iteration
	New       []int64     // schedules with exactly b preemptions (each distinct schedule counted once)
	Capped    bool
	BoundDone int // highest bound fully completed (-1 none)
	MaxPoints int
	MaxSteps  int
	bound     int
}

// Explore runs the iterative exploration.
func (e *Explorer) Explore() {
	e.BoundDone = -1
	e.Execs = make([]int64, e.MaxBound+1)
	e.New = make([]int64, e.MaxBound+1)
	for b := 0; b <= e.MaxBound; b++ {
		e.bound = b
		e.explore(nil, nil)
		if e.Capped {
			return
		}
		e.BoundDone = b
	}
}

// explore replays prefix, then takes choice 0 at every later point; children deviate at one later
// point each. (The loop of the brief, plus the determinism guard and the budget.)
func (e *Explorer) explore(prefix []int, expect []Point) {
	if e.Capped || (e.Stop != nil && e.Stop()) {
		e.Capped = true
		return
	}
	x := e.Run(prefix, expect, false)
	e.Execs[e.bound]++
	if len(x.Points) > e.MaxPoints {
		e.MaxPoints = len(x.Points)
	}
	if x.Steps > e.MaxSteps {
		e.MaxSteps = x.Steps
	}
	if x.Preemptions() == e.bound { // schedules with fewer preemptions were checked in an earlier iteration
		e.New[e.bound]++
		if e.Check != nil {
			e.Check(x)
		}
	}
	for i := len(prefix); i < len(x.Points); i++ {
		p, cost := x.Points[i], x.preemptionsBefore(i)
		if p.RunningStillEnabled {
			cost++
		}
		if cost > e.bound {
			continue
		}
		for alt := 1; alt < len(p.Enabled); alt++ {
			e.explore(append(append([]int{}, x.Choices[:i]...), alt), x.Points)
			if e.Capped {
				return
			}
		}
	}
}

// Replay runs one complete schedule with tracing on.
func (e *Explorer) Replay(choices []int) *Execution { return e.Run(choices, nil, true) }

// Run performs one execution: replays prefix (an out-of-range choice or, when expect is given, an
// enabled set that differs from the recorded one is a hard internal error), then always continues
// the running thread (choice 0).
func (e *Explorer) Run(prefix []int, expect []Point, tracing bool) *Execution {
	if on() {
		Fatal("nested exploration")
	}
	if e.Before != nil {
		e.Before(prefix)
	}
	h := e.Horizon
	if h == 0 {
		h = 100000
	}
	s := newSched(prefix, expect, h, tracing)
	t0 := s.newThread()
	install(s, t0)
	go t0.main(e.Body)
	<-s.doneCh
	x := collect(s)
	if x.diverged != "" {
		Fatal(fmt.Sprintf("schedule cannot be replayed (invalid schedule or nondeterministic harness): %s (prefix %v)", x.diverged, prefix))
	}
	for i := range x.Trace {
		x.Trace[i].resolve()
	}
	if len(x.Choices) < len(prefix) {
		Fatal(fmt.Sprintf("nondeterministic harness: execution ended after %d points, prefix has %d (%v)", len(x.Choices), len(prefix), prefix))
	}
	return &x.Execution
}

type collected struct {
	Execution
	diverged string
}

//go:norace
func install(s *sched, t0 *thread) {
	cur = s
	s.cur = t0
	mode = modeOn
}

// collect quiesces the finished execution: drains the exit edges of the threads that ended, unwinds
// the others (sequentially, with all shims switched to no-ops), and copies the bookkeeping out.
//
//go:norace
func collect(s *sched) collected {
	// the thread that ended the execution may still be a few instructions away from parking
	mode = modeUnwind
	close(s.lingerCh) // threads whose function has returned may leave now
	deadline := time.Now().Add(20 * time.Second)
	for _, t := range s.threads {
		t.abandon = true
		spins := 0
		for !t.gone {
			runtime.Gosched()
			spins++
			if spins&0xfff == 0 && time.Now().After(deadline) {
				Fatal("a thread of an aborted execution did not unwind (blocked in a deferred call?)")
			}
		}
	}
	for {
		select {
		case <-s.exitCh:
			continue
		default:
		}
		break
	}
	mode = modeOff
	cur = nil
	var c collected
	c.Choices, c.Points, c.Steps, c.Threads = s.choices, s.points, s.steps, len(s.threads)
	c.Deadlock, c.Blocked, c.Panic, c.Overrun, c.Hash, c.Trace, c.Result = s.deadlock, s.blocked, s.panicMsg, s.overrun, s.hash, s.trace, s.result
	c.diverged = s.diverged
	return c
}
