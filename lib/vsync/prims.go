package vsync

import (
	"sync"
	"unsafe"
)

// Types that need no modelling (they never block a caller for longer than a real critical section
// of their own and are not scheduling points).
type (
	Pool   = sync.Pool
	Map    = sync.Map
	Locker = sync.Locker
)

// OnceFunc, OnceValue, OnceValues forward to package sync.
func OnceFunc(f func()) func()                                 { return sync.OnceFunc(f) }
func OnceValue[T any](f func() T) func() T                     { return sync.OnceValue(f) }
func OnceValues[T1, T2 any](f func() (T1, T2)) func() (T1, T2) { return sync.OnceValues(f) }

// holder remembers who acquired a primitive last and when (logical clock of the execution), so
// that a deadlock verdict can name the operation that did not release it.
type holder struct {
	thread int
	tick   int64
}

//go:norace
func (h *holder) note() {
	if cur != nil && cur.cur != nil {
		h.thread, h.tick = cur.cur.id, cur.clock
	}
}

const inconsistent = "primitive state differs from the model (it was used outside the scheduler, or leaked from an aborted execution)"

// ---- Mutex --------------------------------------------------------------------------------------

// Mutex wraps a real sync.Mutex; under the scheduler the real mutex is only taken when the model
// says it is free, so the real operation never blocks, and a thread waiting for it is *disabled*.
type Mutex struct {
	mu   sync.Mutex
	held bool // model state, touched under the scheduler only
	own  holder
}

//go:norace
func (m *Mutex) isHeld() bool { return m.held }

//go:norace
func (m *Mutex) setHeld(v bool) {
	m.held = v
	if v {
		m.own.note()
	}
}

func (m *Mutex) Lock() {
	if !on() {
		m.mu.Lock()
		return
	}
	if unwinding() {
		return
	}
	getCur().point(OpLock, unsafe.Pointer(m))
	m.setHeld(true)
	if !m.mu.TryLock() {
		Fatal("Mutex.Lock: " + inconsistent)
	}
}

func (m *Mutex) TryLock() bool {
	if !on() {
		return m.mu.TryLock()
	}
	if unwinding() {
		return false
	}
	getCur().point(OpTryLock, unsafe.Pointer(m))
	if m.isHeld() {
		return false
	}
	m.setHeld(true)
	if !m.mu.TryLock() {
		Fatal("Mutex.TryLock: " + inconsistent)
	}
	return true
}

func (m *Mutex) Unlock() {
	if !on() {
		m.mu.Unlock()
		return
	}
	if unwinding() {
		return
	}
	getCur().point(OpUnlock, unsafe.Pointer(m))
	if !m.isHeld() {
		// the real primitive throws (unrecoverable); as a panic it becomes the outcome of this execution
		panic("sync: unlock of unlocked mutex")
	}
	m.setHeld(false)
	m.mu.Unlock()
}

// ---- RWMutex ------------------------------------------------------------------------------------

// RWMutex models sync.RWMutex including writer preference: a writer first announces itself
// (from then on new readers are excluded), then waits for the active readers to drain.
type RWMutex struct {
	mu  sync.RWMutex
	w   int32  // 0 none, 1 announced, 2 held (model)
	r   int32  // active readers (model)
	own holder // last thread that announced/took the write lock
	rd  holder // last thread that took a read lock
}

//go:norace
func (rw *RWMutex) getW() int32 { return rw.w }

//go:norace
func (rw *RWMutex) setW(v int32) {
	rw.w = v
	if v != 0 {
		rw.own.note()
	}
}

//go:norace
func (rw *RWMutex) getR() int32 { return rw.r }

//go:norace
func (rw *RWMutex) addR(d int32) {
	rw.r += d
	if d > 0 {
		rw.rd.note()
	}
}

func (rw *RWMutex) Lock() {
	if !on() {
		rw.mu.Lock()
		return
	}
	if unwinding() {
		return
	}
	s := getCur()
	s.point(OpWAnnounce, unsafe.Pointer(rw))
	rw.setW(1)
	if rw.getR() != 0 {
		// readers are active: second step, enabled once they have drained. (With no active reader
		// the intermediate state is indistinguishable from "held" for every other thread, so the
		// two steps are fused.)
		s.point(OpWLock, unsafe.Pointer(rw))
	}
	rw.setW(2)
	if !rw.mu.TryLock() {
		Fatal("RWMutex.Lock: " + inconsistent)
	}
}

func (rw *RWMutex) TryLock() bool {
	if !on() {
		return rw.mu.TryLock()
	}
	if unwinding() {
		return false
	}
	getCur().point(OpTryLock, unsafe.Pointer(rw))
	if rw.getW() != 0 || rw.getR() != 0 {
		return false
	}
	rw.setW(2)
	if !rw.mu.TryLock() {
		Fatal("RWMutex.TryLock: " + inconsistent)
	}
	return true
}

func (rw *RWMutex) Unlock() {
	if !on() {
		rw.mu.Unlock()
		return
	}
	if unwinding() {
		return
	}
	getCur().point(OpWUnlock, unsafe.Pointer(rw))
	if rw.getW() != 2 {
		panic("sync: Unlock of unlocked RWMutex")
	}
	rw.setW(0)
	rw.mu.Unlock()
}

func (rw *RWMutex) RLock() {
	if !on() {
		rw.mu.RLock()
		return
	}
	if unwinding() {
		return
	}
	getCur().point(OpRLock, unsafe.Pointer(rw))
	rw.addR(1)
	if !rw.mu.TryRLock() {
		Fatal("RWMutex.RLock: " + inconsistent)
	}
}

func (rw *RWMutex) TryRLock() bool {
	if !on() {
		return rw.mu.TryRLock()
	}
	if unwinding() {
		return false
	}
	getCur().point(OpTryLock, unsafe.Pointer(rw))
	if rw.getW() != 0 {
		return false
	}
	rw.addR(1)
	if !rw.mu.TryRLock() {
		Fatal("RWMutex.TryRLock: " + inconsistent)
	}
	return true
}

func (rw *RWMutex) RUnlock() {
	if !on() {
		rw.mu.RUnlock()
		return
	}
	if unwinding() {
		return
	}
	getCur().point(OpRUnlock, unsafe.Pointer(rw))
	if rw.getR() <= 0 {
		panic("sync: RUnlock of unlocked RWMutex")
	}
	rw.addR(-1)
	rw.mu.RUnlock()
}

type rlocker RWMutex

func (r *rlocker) Lock()   { (*RWMutex)(r).RLock() }
func (r *rlocker) Unlock() { (*RWMutex)(r).RUnlock() }

// RLocker returns a Locker whose Lock/Unlock are rw.RLock/rw.RUnlock.
func (rw *RWMutex) RLocker() Locker { return (*rlocker)(rw) }

// ---- WaitGroup ----------------------------------------------------------------------------------

type WaitGroup struct {
	wg sync.WaitGroup
	n  int // model counter
}

//go:norace
func (wg *WaitGroup) addN(d int) { wg.n += d }

func (wg *WaitGroup) Add(delta int) {
	if !on() {
		wg.wg.Add(delta)
		return
	}
	if unwinding() {
		return
	}
	getCur().point(OpWGAdd, unsafe.Pointer(wg))
	wg.addN(delta)
	wg.wg.Add(delta) // panics on a negative counter exactly like the real one
}

func (wg *WaitGroup) Done() { wg.Add(-1) }

func (wg *WaitGroup) Wait() {
	if !on() {
		wg.wg.Wait()
		return
	}
	if unwinding() {
		return
	}
	getCur().point(OpWGWait, unsafe.Pointer(wg))
	wg.wg.Wait() // counter is zero: returns at once, with the real acquire edge
}

// ---- Once ---------------------------------------------------------------------------------------

const (
	onceIdle    = 0
	onceRunning = 1
	onceDone    = 2
)

type Once struct {
	o     sync.Once
	state int32 // model
}

//go:norace
func (o *Once) getState() int32 { return o.state }

//go:norace
func (o *Once) setState(v int32) { o.state = v }

func (o *Once) Do(f func()) {
	if !on() {
		o.o.Do(f)
		return
	}
	if unwinding() {
		return
	}
	getCur().point(OpOnce, unsafe.Pointer(o)) // disabled while another thread runs f
	if o.getState() == onceDone {
		o.o.Do(f) // no-op, real acquire edge
		return
	}
	o.setState(onceRunning)
	defer o.setState(onceDone)
	o.o.Do(f)
}

// ---- Cond ---------------------------------------------------------------------------------------

type condWaiter struct{ signaled bool }

// Cond: under the scheduler waiting is modelled (sync.Cond's wake-up carries no happens-before
// edge of its own; the edges come from L); outside it a real sync.Cond on L is used.
type Cond struct {
	L Locker

	init    sync.Once
	real    *sync.Cond
	waiters []*condWaiter
}

func NewCond(l Locker) *Cond { return &Cond{L: l} }

func (c *Cond) r() *sync.Cond {
	c.init.Do(func() { c.real = sync.NewCond(c.L) })
	return c.real
}

//go:norace
func (c *Cond) enqueue() *condWaiter {
	w := &condWaiter{}
	c.waiters = append(c.waiters, w)
	return w
}

//go:norace
func (c *Cond) wake(all bool) {
	for len(c.waiters) > 0 {
		c.waiters[0].signaled = true
		c.waiters = c.waiters[1:]
		if !all {
			return
		}
	}
}

func (c *Cond) Wait() {
	if !on() {
		c.r().Wait()
		return
	}
	if unwinding() {
		return
	}
	w := c.enqueue()
	c.L.Unlock()
	getCur().point(OpCondWait, unsafe.Pointer(w))
	c.L.Lock()
}

func (c *Cond) Signal() {
	if !on() {
		c.r().Signal()
		return
	}
	if unwinding() {
		return
	}
	getCur().point(OpCondSignal, unsafe.Pointer(c))
	c.wake(false)
}

func (c *Cond) Broadcast() {
	if !on() {
		c.r().Broadcast()
		return
	}
	if unwinding() {
		return
	}
	getCur().point(OpCondSignal, unsafe.Pointer(c))
	c.wake(true)
}
