// Package vtime is the wall-clock seam (DESIGN §1.2 "clock"): time.Now() inside contract code is
// rewritten (tools/seam.d/40-clock.sh) to vtime.Now(). Outside an exploration it is the real
// clock; an explorer fixes the answer to enumerate "different nodes execute at different times".
package vtime

import "time"

// Fixed, when non-zero, is the answer of Now. Set only by an explorer, between executions.
var Fixed time.Time

// Calls counts Now calls while Fixed is set.
var Calls int

func Now() time.Time {
	if !Fixed.IsZero() {
		Calls++
		return Fixed
	}
	return time.Now()
}
