package world

import (
	"context"
	"sync"

	"0chain.net/core/common"
	"0chain.net/core/datastore"
)

// MemStore is a trivial in-memory datastore.Store (JSON round trip like the real stores).
type MemStore struct {
	mu sync.Mutex
	m  map[string][]byte
}

func NewMemStore() *MemStore { return &MemStore{m: map[string][]byte{}} }

func skey(e datastore.Entity) string {
	return e.GetEntityMetadata().GetName() + ":" + datastore.ToString(e.GetKey())
}

func (s *MemStore) Read(ctx context.Context, key datastore.Key, e datastore.Entity) error {
	s.mu.Lock()
	defer s.mu.Unlock()
	d, ok := s.m[e.GetEntityMetadata().GetName()+":"+datastore.ToString(key)]
	if !ok {
		return common.NewError(datastore.EntityNotFound, "not found")
	}
	return datastore.FromJSON(d, e)
}
func (s *MemStore) Write(ctx context.Context, e datastore.Entity) error {
	s.mu.Lock()
	defer s.mu.Unlock()
	s.m[skey(e)] = append([]byte{}, datastore.ToJSON(e).Bytes()...)
	return nil
}
func (s *MemStore) InsertIfNE(ctx context.Context, e datastore.Entity) error {
	s.mu.Lock()
	defer s.mu.Unlock()
	if _, ok := s.m[skey(e)]; ok {
		return common.NewError("entity_already_exists", "Entity already exists")
	}
	s.m[skey(e)] = append([]byte{}, datastore.ToJSON(e).Bytes()...)
	return nil
}
func (s *MemStore) Delete(ctx context.Context, e datastore.Entity) error {
	s.mu.Lock()
	defer s.mu.Unlock()
	delete(s.m, skey(e))
	return nil
}
func (s *MemStore) Merge(ctx context.Context, e datastore.Entity) error { return s.Write(ctx, e) }
func (s *MemStore) MultiRead(ctx context.Context, md datastore.EntityMetadata, keys []datastore.Key, es []datastore.Entity) error {
	for i, k := range keys {
		if err := s.Read(ctx, k, es[i]); err != nil {
			es[i].SetKey(datastore.EmptyKey)
		}
	}
	return nil
}
func (s *MemStore) MultiWrite(ctx context.Context, md datastore.EntityMetadata, es []datastore.Entity) error {
	for _, e := range es {
		_ = s.Write(ctx, e)
	}
	return nil
}
func (s *MemStore) MultiDelete(ctx context.Context, md datastore.EntityMetadata, es []datastore.Entity) error {
	for _, e := range es {
		_ = s.Delete(ctx, e)
	}
	return nil
}
func (s *MemStore) AddToCollection(context.Context, datastore.CollectionEntity) error { return nil }
func (s *MemStore) MultiAddToCollection(context.Context, datastore.EntityMetadata, []datastore.Entity) error {
	return nil
}
func (s *MemStore) DeleteFromCollection(context.Context, datastore.CollectionEntity) error {
	return nil
}
func (s *MemStore) MultiDeleteFromCollection(context.Context, datastore.EntityMetadata, []datastore.Entity) error {
	return nil
}
func (s *MemStore) GetCollectionSize(context.Context, datastore.EntityMetadata, string) int64 {
	return 0
}
func (s *MemStore) IterateCollection(context.Context, datastore.EntityMetadata, string, datastore.CollectionIteratorHandler) error {
	return nil
}
