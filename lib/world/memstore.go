package world

import (
	"context"
	"sync"

	"0chain.net/core/common"
	"0chain.net/core/datastore"
)

// MemStore is a trivial in-memory datastore.Store (JSON round trip like the real stores).
type MemStore struct {
	mu sync.Mutex
	m  map[string][]byte
	// order, per entity name, is the explorer-chosen iteration order of IterateCollection (keys of
	// stored entities); nil = the collection is empty (the behaviour before this extension)
	order map[string][]string
}

// SetCollectionOrder makes IterateCollection over entities named entityName visit the stored
// entities with these keys in this order (keys that are not stored any more are skipped).
func (s *MemStore) SetCollectionOrder(entityName string, keys []string) {
	s.mu.Lock()
	defer s.mu.Unlock()
	if s.order == nil {
		s.order = map[string][]string{}
	}
	if keys == nil {
		delete(s.order, entityName)
		return
	}
	s.order[entityName] = append([]string{}, keys...)
}

// DeleteAll removes every stored entity of the given entity name.
func (s *MemStore) DeleteAll(entityName string) {
	s.mu.Lock()
	defer s.mu.Unlock()
	for k := range s.m {
		if len(k) > len(entityName) && k[:len(entityName)+1] == entityName+":" {
			delete(s.m, k)
		}
	}
}

// Has reports whether an entity with this name and key is stored.
func (s *MemStore) Has(entityName, key string) bool {
	s.mu.Lock()
	defer s.mu.Unlock()
	_, ok := s.m[entityName+":"+key]
	return ok
}

func NewMemStore() *MemStore { return &MemStore{m: map[string][]byte{}} }

func skey(e datastore.Entity) string {
	return e.GetEntityMetadata().GetName() + ":" + datastore.ToString(e.GetKey())
}

func (s *MemStore) Read(ctx context.Context, key datastore.Key, e datastore.Entity) error {
	s.mu.Lock()
	defer s.mu.Unlock()
	d, ok := s.m[e.GetEntityMetadata().GetName()+":"+datastore.ToString(key)]
	if !ok {
		return common.NewError(datastore.EntityNotFound, "not found")
	}
	return datastore.FromJSON(d, e)
}
func (s *MemStore) Write(ctx context.Context, e datastore.Entity) error {
	s.mu.Lock()
	defer s.mu.Unlock()
	s.m[skey(e)] = append([]byte{}, datastore.ToJSON(e).Bytes()...)
	return nil
}
func (s *MemStore) InsertIfNE(ctx context.Context, e datastore.Entity) error {
	s.mu.Lock()
	defer s.mu.Unlock()
	if _, ok := s.m[skey(e)]; ok {
		return common.NewError("entity_already_exists", "Entity already exists")
	}
	s.m[skey(e)] = append([]byte{}, datastore.ToJSON(e).Bytes()...)
	return nil
}
func (s *MemStore) Delete(ctx context.Context, e datastore.Entity) error {
	s.mu.Lock()
	defer s.mu.Unlock()
	delete(s.m, skey(e))
	return nil
}
func (s *MemStore) Merge(ctx context.Context, e datastore.Entity) error { return s.Write(ctx, e) }
func (s *MemStore) MultiRead(ctx context.Context, md datastore.EntityMetadata, keys []datastore.Key, es []datastore.Entity) error {
	for i, k := range keys {
		if err := s.Read(ctx, k, es[i]); err != nil {
			es[i].SetKey(datastore.EmptyKey)
		}
	}
	return nil
}
func (s *MemStore) MultiWrite(ctx context.Context, md datastore.EntityMetadata, es []datastore.Entity) error {
	for _, e := range es {
		_ = s.Write(ctx, e)
	}
	return nil
}
func (s *MemStore) MultiDelete(ctx context.Context, md datastore.EntityMetadata, es []datastore.Entity) error {
	for _, e := range es {
		_ = s.Delete(ctx, e)
	}
	return nil
}
func (s *MemStore) AddToCollection(context.Context, datastore.CollectionEntity) error { return nil }
func (s *MemStore) MultiAddToCollection(context.Context, datastore.EntityMetadata, []datastore.Entity) error {
	return nil
}
func (s *MemStore) DeleteFromCollection(context.Context, datastore.CollectionEntity) error {
	return nil
}
func (s *MemStore) MultiDeleteFromCollection(context.Context, datastore.EntityMetadata, []datastore.Entity) error {
	return nil
}
func (s *MemStore) GetCollectionSize(context.Context, datastore.EntityMetadata, string) int64 {
	return 0
}
func (s *MemStore) IterateCollection(ctx context.Context, md datastore.EntityMetadata, _ string, handler datastore.CollectionIteratorHandler) error {
	s.mu.Lock()
	order := append([]string{}, s.order[md.GetName()]...)
	s.mu.Unlock()
	for _, k := range order {
		select {
		case <-ctx.Done():
			return ctx.Err()
		default:
		}
		e := md.Instance()
		if err := s.Read(ctx, datastore.ToKey(k), e); err != nil {
			continue // deleted meanwhile
		}
		ce, ok := e.(datastore.CollectionEntity)
		if !ok {
			continue
		}
		proceed, err := handler(ctx, ce)
		if err != nil {
			return err
		}
		if !proceed {
			break
		}
	}
	return nil
}
