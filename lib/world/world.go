// Package world builds a real 0chain chain (all smart contracts, real genesis, real MPT, real
// state cache) without network, redis or rocksdb, and exposes the primitives the explicit-state
// engine (E1) needs: signed transactions, blocks on top of any parent, one real
// Chain.UpdateState per transition, and a full leaf dump of a block's state.
package world

import (
	"bytes"
	"context"
	"encoding/hex"
	"encoding/json"
	"fmt"
	"os"
	"path/filepath"
	"sort"
	"strings"
	"sync"
	"time"

	"0chain.net/chaincore/block"
	"0chain.net/chaincore/chain"
	cstate "0chain.net/chaincore/chain/state"
	"0chain.net/chaincore/client"
	"0chain.net/chaincore/node"
	"0chain.net/chaincore/round"
	"0chain.net/chaincore/state"
	"0chain.net/chaincore/transaction"
	"0chain.net/core/common"
	"0chain.net/core/config"
	"0chain.net/core/encryption"
	"0chain.net/core/viper"
	"0chain.net/smartcontract/dbs/event"
	"0chain.net/smartcontract/faucetsc"
	"0chain.net/smartcontract/minersc"
	"0chain.net/smartcontract/multisigsc"
	"0chain.net/smartcontract/setupsc"
	"0chain.net/smartcontract/storagesc"
	"0chain.net/smartcontract/vestingsc"
	"0chain.net/smartcontract/zcnsc"
	"github.com/0chain/common/core/currency"
	"github.com/0chain/common/core/logging"
	"github.com/0chain/common/core/statecache"
	"github.com/0chain/common/core/util"
	"github.com/herumi/bls-go-binary/bls"
	"go.uber.org/zap"
)

const ConfigDir = "/repo/docker.local/config"

// Actor is a key pair the harness owns.
type Actor struct {
	Name      string
	ID        string
	PublicKey string
	Scheme    encryption.SignatureScheme
}

// Options of a world. Zero value = docker.local configuration, all six contracts enabled.
type Options struct {
	Viper      map[string]any // overrides of 0chain.yaml keys
	SC         map[string]any // overrides of sc.yaml keys (e.g. "smart_contracts.faucetsc.pour_amount")
	NumClients int            // funded clients c0..c(n-1) (default 3)
	ClientFund currency.Coin  // initial balance of each client (default 1e13)
	ExtraFund  map[string]currency.Coin // extra genesis accounts (id -> tokens), taken from the minersc allotment
	Stakes     []state.InitStake
}

// World is one real chain.
type World struct {
	Chain    *chain.Chain
	Genesis  *block.Block
	GenesisRound round.RoundI
	Owner    *Actor
	Miners   []*Actor
	Sharders []*Actor
	Clients  []*Actor
	Actors   map[string]*Actor // by name
	ByID     map[string]*Actor
	Ctx      context.Context
	cancel   context.CancelFunc
	Store    *MemStore
	WorkDir  string
}

var once sync.Mutex
var built bool

// SCAddresses are the contract wallets.
var SCAddresses = map[string]string{
	"minersc":    minersc.ADDRESS,
	"storagesc":  storagesc.ADDRESS,
	"faucetsc":   faucetsc.ADDRESS,
	"zcnsc":      zcnsc.ADDRESS,
	"vestingsc":  vestingsc.ADDRESS,
	"multisigsc": multisigsc.Address,
}

// DetKey returns a deterministic BLS key pair for a name.
func DetKey(name string) *Actor {
	seed := encryption.RawHash("verif-key:" + name)
	seed[31] &= 0x0f // below the group order
	var sk bls.SecretKey
	if err := sk.SetLittleEndian(seed); err != nil {
		panic(err)
	}
	pub := sk.GetPublicKey().SerializeToHexStr()
	s := encryption.NewBLS0ChainScheme()
	if err := s.ReadKeys(strings.NewReader(pub + "\n" + hex.EncodeToString(sk.GetLittleEndian()) + "\n")); err != nil {
		panic(err)
	}
	return &Actor{Name: name, ID: encryption.Hash(mustHex(pub)), PublicKey: pub, Scheme: s}
}

func mustHex(s string) []byte {
	b, err := hex.DecodeString(s)
	if err != nil {
		panic(err)
	}
	return b
}

// FileKey reads a docker.local key file (public key, private key).
func FileKey(name, file string) *Actor {
	data, err := os.ReadFile(filepath.Join(ConfigDir, file))
	if err != nil {
		panic(err)
	}
	s := encryption.NewBLS0ChainScheme()
	if err := s.ReadKeys(bytes.NewReader(data)); err != nil {
		panic(err)
	}
	pub := s.GetPublicKey()
	return &Actor{Name: name, ID: encryption.Hash(mustHex(pub)), PublicKey: pub, Scheme: s}
}

// New builds the world. Only one world per process (the repository keeps chain, contract and
// entity registries in process globals).
func New(o Options) *World {
	once.Lock()
	defer once.Unlock()
	if built {
		panic("world: only one world per process")
	}
	built = true
	logging.Logger = zap.NewNop()
	logging.N2n = zap.NewNop()
	logging.MemUsage = zap.NewNop()

	cstate.VerifTap = Tap.hook
	w := &World{Actors: map[string]*Actor{}, ByID: map[string]*Actor{}, Store: NewMemStore()}
	w.WorkDir = fmt.Sprintf("/verif-mem/world-%d", os.Getpid()) // only a name in the in-memory KV registry
	config.Configuration().DeploymentMode = config.DeploymentDevelopment
	config.SetupDefaultConfig()
	if err := viper.ReadConfigFile(filepath.Join(ConfigDir, "0chain.yaml")); err != nil {
		panic(err)
	}
	if err := config.SmartContractConfig.ReadConfigFile(filepath.Join(ConfigDir, "sc.yaml")); err != nil {
		panic(err)
	}
	for _, sc := range []string{"faucet", "storage", "zcn", "multisig", "miner", "vesting"} {
		viper.Set("server_chain.smart_contract."+sc, true)
	}
	viper.Set("server_chain.smart_contract.timeout", "10m") // no wall-clock timer may fire
	viper.Set("server_chain.dbs.events.enabled", false)
	for k, v := range o.Viper {
		viper.Set(k, v)
	}
	// the contracts' configured owner (sc.yaml) is a key we do not hold: make the chain owner
	// (docker.local b0owner_keys.txt) the owner of every contract unless the scenario overrides it
	ownerKey := FileKey("owner", "b0owner_keys.txt")
	for _, sc := range []string{"faucetsc", "minersc", "storagesc", "vestingsc", "zcnsc"} {
		config.SmartContractConfig.Set("smart_contracts."+sc+".owner_id", ownerKey.ID)
	}
	for k, v := range o.SC {
		config.SmartContractConfig.Set(k, v)
	}
	config.Configuration().ChainID = viper.GetString("server_chain.id")
	transaction.SetTxnTimeout(int64(viper.GetInt("server_chain.transaction.timeout")))
	config.SetServerChainID(config.Configuration().ChainID)

	common.SetupRootContext(node.GetNodeContext())
	w.Ctx, w.cancel = context.WithCancel(common.GetRootContext())

	chain.SetupEntity(w.Store, w.WorkDir)
	round.SetupEntity(w.Store)
	round.SetupVRFShareEntity(w.Store)
	block.SetupEntity(w.Store)
	block.SetupBlockSummaryEntity(w.Store)
	block.SetupStateChange(w.Store)
	state.SetupPartialState(w.Store)
	state.SetupStateNodes(w.Store)
	client.SetupEntity(w.Store)
	transaction.SetupEntity(w.Store)
	setupsc.SetupSmartContracts()

	c := chain.NewChainFromConfig()
	c.SetupStateCache()
	chain.SetServerChain(c)
	w.Chain = c

	// actors
	w.Owner = ownerKey
	w.add(w.Owner)
	for i := 1; i <= 4; i++ {
		a := FileKey(fmt.Sprintf("m%d", i-1), fmt.Sprintf("b0mnode%d_keys.txt", i))
		w.Miners = append(w.Miners, a)
		w.add(a)
	}
	for i := 1; i <= 2; i++ {
		a := FileKey(fmt.Sprintf("s%d", i-1), fmt.Sprintf("b0snode%d_keys.txt", i))
		w.Sharders = append(w.Sharders, a)
		w.add(a)
	}
	if o.NumClients == 0 {
		o.NumClients = 3
	}
	if o.ClientFund == 0 {
		o.ClientFund = 1e13
	}
	for i := 0; i < o.NumClients; i++ {
		a := DetKey(fmt.Sprintf("c%d", i))
		w.Clients = append(w.Clients, a)
		w.add(a)
	}
	if err := node.Self.SetSignatureScheme(w.Miners[0].Scheme); err != nil {
		panic(err)
	}
	node.Self.Underlying().Type = node.NodeTypeMiner

	// magic block (docker.local, 4 miners, 2 sharders)
	mb, err := chain.ReadMagicBlockFile(filepath.Join(ConfigDir, "b0magicBlock_4_miners_2_sharders.json"))
	if err != nil {
		panic(err)
	}
	for _, n := range mb.Miners.CopyNodes() {
		n.SetStatus(node.NodeStatusInactive) // no N2N sends
	}
	for _, n := range mb.Sharders.CopyNodes() {
		n.SetStatus(node.NodeStatusInactive)
	}

	// genesis state: the docker.local contract allotments, clients funded from the minersc allotment
	is := state.NewInitStates()
	if err := is.Read(filepath.Join(ConfigDir, "initial_state.yaml")); err != nil {
		panic(err)
	}
	is.Stakes = o.Stakes
	for i := range is.States {
		if is.States[i].ID == minersc.ADDRESS {
			for _, a := range w.Clients {
				is.States[i].State = append(is.States[i].State, state.IDTokens{ID: a.ID, Tokens: o.ClientFund})
			}
			hasOwner := false
			for _, st := range is.States[i].State {
				if st.ID == w.Owner.ID {
					hasOwner = true
				}
			}
			if !hasOwner {
				is.States[i].State = append(is.States[i].State, state.IDTokens{ID: w.Owner.ID, Tokens: o.ClientFund})
			}
			ids := make([]string, 0, len(o.ExtraFund))
			for id := range o.ExtraFund {
				ids = append(ids, id)
			}
			sort.Strings(ids)
			for _, id := range ids {
				is.States[i].State = append(is.States[i].State, state.IDTokens{ID: id, Tokens: o.ExtraFund[id]})
			}
		}
	}

	go c.StartLFMBWorker(w.Ctx)
	gr, gb := c.GenerateGenesisBlock(viper.GetString("server_chain.genesis_block.id"), mb, is)
	c.AddRound(gr)
	w.GenesisRound = gr
	c.AddGenesisBlock(gb)
	c.InitializeMinerPool(mb)
	w.Genesis = gb
	return w
}

func (w *World) add(a *Actor) {
	w.Actors[a.Name] = a
	w.ByID[a.ID] = a
}

// Close stops background workers.
func (w *World) Close() { w.cancel() }

// Node is a block of the explored block tree together with its state and cache lineage.
type Node struct {
	Block  *block.Block
	State  util.MerklePatriciaTrieI
	Cache  *statecache.BlockCache
	Parent *Node
	Events []event.Event
	Txns   []*transaction.Transaction
	closed bool
}

// GenesisNode wraps the genesis block.
func (w *World) GenesisNode() *Node {
	return &Node{Block: w.Genesis, State: w.Genesis.ClientState, closed: true}
}

// Open creates a new block on top of parent (parent must be closed). hashSalt makes sibling
// blocks distinct.
func (w *World) Open(parent *Node, rnd int64, creation common.Timestamp, miner *Actor, seed int64, hashSalt string) *Node {
	return w.OpenWith(parent, rnd, creation, miner, seed, hashSalt, w.Chain.GetStateCache())
}

// OpenWith is Open with an explicit global state cache (cache-warmth explorations keep several).
func (w *World) OpenWith(parent *Node, rnd int64, creation common.Timestamp, miner *Actor, seed int64, hashSalt string, sc *statecache.StateCache) *Node {
	if !parent.closed {
		panic("world: parent block not closed")
	}
	b := block.NewBlock(w.Chain.GetKey(), rnd)
	b.CreationDate = creation
	b.MinerID = miner.ID
	b.SetRoundRandomSeed(seed)
	b.SetPreviousBlock(parent.Block)
	b.Round = rnd // (SetPreviousBlock sets parent+1; scenarios may jump, e.g. to reach the prune boundary at round 100)
	b.Hash = encryption.Hash(fmt.Sprintf("verif-block:%s:%d:%d:%s:%s", parent.Block.Hash, rnd, creation, miner.ID, hashSalt))
	st := block.CreateStateWithPreviousBlock(parent.Block, w.Chain.GetStateDB(), rnd)
	bc := statecache.NewBlockCache(sc, statecache.Block{Round: rnd, Hash: b.Hash, PrevHash: parent.Block.Hash})
	return &Node{Block: b, State: st, Cache: bc, Parent: parent}
}

// Exec runs one transaction through the real Chain.UpdateState in block n.
func (w *World) Exec(n *Node, t *transaction.Transaction) ([]event.Event, error) {
	if n.closed {
		panic("world: block closed")
	}
	evs, err := w.Chain.UpdateState(w.Ctx, n.Block, n.State, t, n.Cache)
	if err == nil {
		n.Txns = append(n.Txns, t)
		n.Events = append(n.Events, evs...)
	}
	return evs, err
}

// Close finishes the block: state hash set, state marked computed, block cache committed.
func (w *World) CloseBlock(n *Node) {
	if n.closed {
		return
	}
	n.Block.Txns = n.Txns
	n.Block.SetClientState(n.State)
	n.Block.SetStateChangesCount(n.State)
	n.Block.SetStateStatus(block.StateSuccessful)
	n.Cache.Commit()
	n.closed = true
}

// TxnSpec describes a transaction to build and sign.
type TxnSpec struct {
	From  *Actor
	To    string
	Type  int
	Value currency.Coin
	Fee   currency.Coin
	Nonce int64
	Data  string
	Time  common.Timestamp
}

// SC builds the data field of a smart-contract call.
func SC(function string, input any) string {
	var raw json.RawMessage
	switch v := input.(type) {
	case nil:
		raw = json.RawMessage("{}")
	case []byte:
		raw = v
	case string:
		raw = json.RawMessage(v)
	default:
		b, err := json.Marshal(v)
		if err != nil {
			panic(err)
		}
		raw = b
	}
	out, _ := json.Marshal(map[string]any{"name": function, "input": raw})
	return string(out)
}

// Txn builds, hashes and signs a transaction.
func (w *World) Txn(s TxnSpec) *transaction.Transaction {
	t := transaction.Provider().(*transaction.Transaction)
	t.ClientID = s.From.ID
	t.PublicKey = s.From.PublicKey
	t.ToClientID = s.To
	t.ChainID = w.Chain.GetKey()
	t.TransactionType = s.Type
	t.Value = s.Value
	t.Fee = s.Fee
	t.Nonce = s.Nonce
	t.TransactionData = s.Data
	t.CreationDate = s.Time
	if _, err := t.Sign(s.From.Scheme); err != nil {
		panic(err)
	}
	if err := t.ComputeProperties(); err != nil {
		panic(fmt.Sprintf("txn properties: %v (%s)", err, s.Data))
	}
	return t
}

// Leaf is one leaf of a state trie.
type Leaf struct {
	Path  string // hex-ish full path
	Value []byte
}

// Leaves returns every leaf of the trie, sorted by path.
func Leaves(mpt util.MerklePatriciaTrieI) []Leaf {
	var out []Leaf
	err := mpt.Iterate(context.Background(), func(ctx context.Context, path util.Path, key util.Key, node util.Node) error {
		if ln, ok := node.(*util.LeafNode); ok {
			full := string(path) + string(ln.Path)
			var v []byte
			if ln.Value != nil {
				v = ln.GetValueBytes()
			}
			out = append(out, Leaf{Path: full, Value: append([]byte{}, v...)})
		}
		return nil
	}, util.NodeTypeLeafNode|util.NodeTypeFullNode|util.NodeTypeExtensionNode)
	if err != nil {
		panic(fmt.Sprintf("iterate: %v", err))
	}
	sort.Slice(out, func(i, j int) bool { return out[i].Path < out[j].Path })
	return out
}

// AccountPath is the trie path of an account id.
func AccountPath(id string) string { return string(util.Path(encryption.Hash(id))) }

// Balance reads an account through the trie (0, 0 when absent).
func Balance(mpt util.MerklePatriciaTrieI, id string) (currency.Coin, int64) {
	s, err := chain.GetStateById(mpt, id)
	if err != nil && err != util.ErrValueNotPresent {
		panic(err)
	}
	return s.Balance, s.Nonce
}

var _ = time.Now

// ---------------------------------------------------------------------------------------------
// keytap dictionary (see tools/seam.d/20-keytap.sh)

// TapRec is one observed state access of the current transition.
type TapRec struct {
	Op  string
	Key string
	Obj interface{}
}

type tapState struct {
	mu       sync.Mutex
	Accounts map[string]bool   // account ids ever written through SetClientState
	Keys     map[string]string // trie path -> plaintext contract-node key
	cur      []TapRec
	record   bool
}

var Tap = &tapState{Accounts: map[string]bool{}, Keys: map[string]string{}}

func (t *tapState) hook(op, key string, obj interface{}) {
	t.mu.Lock()
	defer t.mu.Unlock()
	switch op {
	case "set_client":
		t.Accounts[key] = true
	case "insert", "delete", "get":
		p := string(util.Path(encryption.Hash(key)))
		if _, ok := t.Keys[p]; !ok {
			t.Keys[p] = key
		}
	}
	if t.record && op != "get" && op != "get_client" {
		t.cur = append(t.cur, TapRec{Op: op, Key: key, Obj: obj})
	}
}

// Begin starts recording the write-side accesses of one transition.
func (t *tapState) Begin() {
	t.mu.Lock()
	t.cur = nil
	t.record = true
	t.mu.Unlock()
}

// End stops recording and returns what was recorded.
func (t *tapState) End() []TapRec {
	t.mu.Lock()
	defer t.mu.Unlock()
	t.record = false
	out := t.cur
	t.cur = nil
	return out
}

// IsAccount reports whether the path is an account leaf.
func (t *tapState) IsAccount(path string) bool {
	t.mu.Lock()
	defer t.mu.Unlock()
	return t.Accounts[path]
}

// KeyOf returns the plaintext contract key of a path ("" when unknown).
func (t *tapState) KeyOf(path string) string {
	t.mu.Lock()
	defer t.mu.Unlock()
	return t.Keys[path]
}
