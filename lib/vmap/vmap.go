// Package vmap is the map-iteration seam (DESIGN §1.2 "maporder"): the settings-update loops of
// the contracts, which range over a map[string]string, are rewritten (tools/seam.d/30-maporder.sh)
// to range over vmap.Keys(m). Outside an exploration Keys returns the keys in sorted order — one
// of the orders Go may legally produce; an explorer sets Choice to enumerate every order (all n!
// permutations for n <= 3 keys, all rotations of the sorted order and of its reversal above).
package vmap

import "sort"

// Choice selects the permutation (0 = sorted). Set only by an explorer, between executions.
var Choice int

// Calls counts Keys calls with >= 2 keys (lets a check prove the seam was exercised).
var Calls int

// NumOrders is how many distinct orders Keys can return for n keys.
func NumOrders(n int) int {
	switch {
	case n <= 1:
		return 1
	case n == 2:
		return 2
	case n == 3:
		return 6
	default:
		return 2 * n
	}
}

func Keys(m map[string]string) []string {
	keys := make([]string, 0, len(m))
	for k := range m {
		keys = append(keys, k)
	}
	sort.Strings(keys)
	n := len(keys)
	if n >= 2 {
		Calls++
	}
	c := Choice % NumOrders(n)
	if c == 0 || n <= 1 {
		return keys
	}
	if n <= 3 {
		perms := [][]int{{0, 1, 2}, {0, 2, 1}, {1, 0, 2}, {1, 2, 0}, {2, 0, 1}, {2, 1, 0}}
		if n == 2 {
			perms = [][]int{{0, 1}, {1, 0}}
		}
		out := make([]string, n)
		for i, j := range perms[c] {
			out[i] = keys[j]
		}
		return out
	}
	if c >= n { // reversed rotations
		for i, j := 0, n-1; i < j; i, j = i+1, j-1 {
			keys[i], keys[j] = keys[j], keys[i]
		}
		c -= n
	}
	return append(append([]string{}, keys[c:]...), keys[:c]...)
}

// KeysOf is Keys for any map with an ordered key type (general map-iteration seam).
func KeysOf[K interface {
	~int | ~int8 | ~int16 | ~int32 | ~int64 | ~uint | ~uint8 | ~uint16 | ~uint32 | ~uint64 | ~uintptr | ~float32 | ~float64 | ~string
}, V any](m map[K]V) []K {
	keys := make([]K, 0, len(m))
	for k := range m {
		keys = append(keys, k)
	}
	sort.Slice(keys, func(i, j int) bool { return keys[i] < keys[j] })
	n := len(keys)
	if n >= 2 {
		Calls++
	}
	c := Choice % NumOrders(n)
	if c == 0 || n <= 1 {
		return keys
	}
	if n <= 3 {
		perms := [][]int{{0, 1, 2}, {0, 2, 1}, {1, 0, 2}, {1, 2, 0}, {2, 0, 1}, {2, 1, 0}}
		if n == 2 {
			perms = [][]int{{0, 1}, {1, 0}}
		}
		out := make([]K, n)
		for i, j := range perms[c] {
			out[i] = keys[j]
		}
		return out
	}
	if c >= n {
		for i, j := 0, n-1; i < j; i, j = i+1, j-1 {
			keys[i], keys[j] = keys[j], keys[i]
		}
		c -= n
	}
	return append(append([]K{}, keys[c:]...), keys[:c]...)
}
