// Package envs holds the environment answers shared by the C06 / C07 differential parts of every
// scenario binary: map iteration orders and wall-clock answers (owned through the seams in
// tools/seam.d) and cache warmth.
package envs

import (
	"encoding/json"
	"fmt"
	"os"
	"path/filepath"
	"time"

	"github.com/0chain/common/core/statecache"
	"verif/lib/chainsim"
	"verif/lib/ev"
	"verif/lib/vmap"
	"verif/lib/vtime"
)

// Determinism: every map order the seam can produce, two clock answers, lineage-warmed cache.
func Determinism(lineage, shared *statecache.StateCache) []*chainsim.Env {
	var envs []*chainsim.Env
	for c := 1; c < 6; c++ {
		c := c
		envs = append(envs, &chainsim.Env{Name: fmt.Sprintf("maporder%d", c), Class: "maporder", Setup: func() { vmap.Choice = c }, Reset: func() { vmap.Choice = 0 }})
	}
	envs = append(envs,
		&chainsim.Env{Name: "clock-epoch", Class: "clock", Setup: func() { vtime.Fixed = time.Unix(1, 0) }, Reset: func() { vtime.Fixed = time.Time{} }},
		&chainsim.Env{Name: "clock-far-future", Class: "clock", Setup: func() { vtime.Fixed = time.Unix(4102444800, 0) }, Reset: func() { vtime.Fixed = time.Time{} }},
	)
	if lineage != nil {
		envs = append(envs, &chainsim.Env{Name: "warm-lineage-cache", Cache: lineage})
	}
	return envs
}

// Cache: lineage-warmed and fork-shared caches against the cold trie (C07).
func Cache(lineage, shared *statecache.StateCache) []*chainsim.Env {
	return []*chainsim.Env{{Name: "warm-lineage-cache", Cache: lineage}, {Name: "fork-shared-cache", Cache: shared}}
}

// SeamSites reports which source sites the maporder / clock seams rewrote in this build.
func SeamSites() map[string]any {
	out := map[string]any{}
	for _, n := range []string{"maporder.sites.json", "clock.sites.json"} {
		dir := "seams"
		if s := os.Getenv("VERIF_BIN_SUFFIX"); s != "" {
			dir = "seams." + s
		}
		if b, err := os.ReadFile(filepath.Join(ev.Root(), ".work", dir, n)); err == nil {
			var v any
			_ = json.Unmarshal(b, &v)
			out[n] = v
		}
	}
	return out
}

// DeterminismAssumptions is the standard assumption text of a C06 part.
var DeterminismAssumptions = []string{
	"map-order nondeterminism is explored at the settings-update loops listed in seam_sites (pattern-matched range-over-map sites in the anchored settings files); other map ranges in contract code are not rewritten",
	"wall-clock nondeterminism is explored at the time.Now() call sites listed in seam_sites",
	"goroutine scheduling inside a transition is left to the Go scheduler (the helper goroutine is joined before anything is observed)",
}
