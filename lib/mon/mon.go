// Package mon holds the transition monitors shared by every chainsim scenario binary: supply
// (C01), failed call (C02), nonce (C03), debit authorisation (C04), balances (C05).
package mon

import (
	"fmt"
	"math/big"
	"sort"

	"0chain.net/core/config"

	"0chain.net/chaincore/state"
	"0chain.net/chaincore/transaction"
	"0chain.net/core/encryption"
	"0chain.net/smartcontract/dbs/event"
	"0chain.net/smartcontract/minersc"
	"verif/lib/chainsim"
	"verif/lib/world"
)

type Acct struct {
	Bal   uint64
	Nonce int64
	Has   bool
}

func Accounts(ls []world.Leaf) map[string]Acct {
	m := map[string]Acct{}
	for _, l := range ls {
		if world.Tap.IsAccount(l.Path) {
			if st, ok := chainsim.DecodeAccount(l.Value); ok {
				m[l.Path] = Acct{uint64(st.Balance), st.Nonce, true}
			}
		}
	}
	return m
}

// effectiveTransfers returns the transfers of the final state context of the transition (those
// queued after the last EmitError reset), in order, followed by the signed transfers.
func EffectiveTransfers(s *chainsim.Step) (ts []*state.Transfer, sts []*state.SignedTransfer) {
	for _, r := range s.Tap {
		switch r.Op {
		case "emit_error":
			ts, sts = nil, nil
		case "add_transfer":
			t := r.Obj.(*state.Transfer)
			if encryption.IsHash(t.ToClientID) {
				ts = append(ts, t)
			}
		case "add_signed_transfer":
			sts = append(sts, r.Obj.(*state.SignedTransfer))
		}
	}
	return
}

// nonceMonitor (C03)
func NonceMonitor(s *chainsim.Step, v func(key, what string)) {
	pre := Accounts(s.PreLeaves)[s.Txn.ClientID]
	post := Accounts(s.Post.Leaves)[s.Txn.ClientID]
	cls := ActionClass(s.Action.Name)
	if s.Err == nil {
		if s.Txn.Nonce != pre.Nonce+1 {
			v("C03:applied-with-wrong-nonce:"+cls, fmt.Sprintf("txn nonce %d applied while state nonce was %d", s.Txn.Nonce, pre.Nonce))
		}
		if post.Nonce != pre.Nonce+1 {
			v("C03:nonce-not-raised-by-one:"+cls, fmt.Sprintf("state nonce %d -> %d after an applied transaction (status %d)", pre.Nonce, post.Nonce, s.Txn.Status))
		}
	} else if len(s.Diff) > 0 {
		v("C03:rejected-txn-changed-state:"+cls, fmt.Sprintf("%d leaves changed by a rejected transaction (err %v)", len(s.Diff), s.Err))
	}
	// no other account's nonce moves
	for p, a := range Accounts(s.Post.Leaves) {
		if p == s.Txn.ClientID {
			continue
		}
		if b := Accounts(s.PreLeaves)[p]; b.Nonce != a.Nonce && b.Has {
			v("C03:foreign-nonce-changed:"+cls, fmt.Sprintf("nonce of %s changed %d -> %d by a transaction of %s", p, b.Nonce, a.Nonce, s.Txn.ClientID))
		}
	}
}

// balanceMonitor (C05): post balances equal the big-int result of applying the effective
// transfers to the pre balances; if any partial sum leaves [0, 2^64) the transaction must have
// been rejected with every leaf unchanged.
func BalanceMonitor(s *chainsim.Step, v func(key, what string)) {
	cls := ActionClass(s.Action.Name)
	pre, post := Accounts(s.PreLeaves), Accounts(s.Post.Leaves)
	if s.Err != nil {
		if len(s.Diff) > 0 {
			v("C05:rejected-txn-changed-state:"+cls, fmt.Sprintf("%d leaves changed although the transaction was rejected (%v)", len(s.Diff), s.Err))
		}
		return
	}
	ts, sts := EffectiveTransfers(s)
	bal := map[string]*big.Int{}
	get := func(id string) *big.Int {
		if b, ok := bal[id]; ok {
			return b
		}
		b := new(big.Int).SetUint64(pre[id].Bal)
		bal[id] = b
		return b
	}
	max := new(big.Int).Lsh(big.NewInt(1), 64)
	bad := ""
	apply := func(from, to string, amt uint64) {
		if amt == 0 {
			return
		}
		a := new(big.Int).SetUint64(amt)
		get(from).Sub(get(from), a)
		if get(from).Sign() < 0 && bad == "" {
			bad = fmt.Sprintf("transfer of %d overdraws %s", amt, from)
		}
		get(to).Add(get(to), a)
		if get(to).Cmp(max) >= 0 && bad == "" {
			bad = fmt.Sprintf("transfer of %d overflows %s", amt, to)
		}
	}
	for _, t := range ts {
		apply(t.ClientID, t.ToClientID, uint64(t.Amount))
	}
	for _, t := range sts {
		apply(t.ClientID, t.ToClientID, uint64(t.Amount))
	}
	if bad != "" {
		v("C05:overdraw-or-overflow-applied:"+cls, "transaction was applied although "+bad)
		return
	}
	ids := map[string]bool{}
	for id := range pre {
		ids[id] = true
	}
	for id := range post {
		ids[id] = true
	}
	for id := range bal {
		ids[id] = true
	}
	for id := range ids {
		want := new(big.Int).SetUint64(pre[id].Bal)
		if b, ok := bal[id]; ok {
			want = b
		}
		if want.Cmp(new(big.Int).SetUint64(post[id].Bal)) != 0 {
			v("C05:balance-differs-from-transfer-sum:"+cls, fmt.Sprintf("account %s: pre %d, transfers give %s, state has %d", id, pre[id].Bal, want.String(), post[id].Bal))
		}
	}
}

// failMonitor (C02): a chargeable failure leaves only the fee payment, the nonce increment and
// one error event.
func FailMonitor(s *chainsim.Step, v func(key, what string)) {
	if s.Err != nil || s.Txn.Status != transaction.TxnError {
		return
	}
	cls := ActionClass(s.Action.Name)
	// was this a LATE failure (the body had already written state / queued transfers)?
	writes := 0
	for _, r := range s.Tap {
		if r.Op == "emit_error" {
			break
		}
		if r.Op == "insert" || r.Op == "delete" || r.Op == "add_transfer" || r.Op == "set_client" {
			writes++
		}
	}
	if writes > 0 {
		s.Tag("late-failure:" + cls)
	} else {
		s.Tag("early-failure:" + cls)
	}
	pre, post := Accounts(s.PreLeaves), Accounts(s.Post.Leaves)
	fee := uint64(s.Txn.Fee)
	for _, d := range s.Diff {
		switch {
		case d.Path == s.Txn.ClientID && world.Tap.IsAccount(d.Path):
			a, b := pre[d.Path], post[d.Path]
			if b.Nonce != a.Nonce+1 || a.Bal-b.Bal != fee || b.Bal > a.Bal {
				v("C02:sender-change-not-fee-and-nonce:"+cls, fmt.Sprintf("sender %d/%d -> %d/%d with fee %d", a.Bal, a.Nonce, b.Bal, b.Nonce, fee))
			}
		case d.Path == minersc.ADDRESS && world.Tap.IsAccount(d.Path):
			a, b := pre[d.Path], post[d.Path]
			if b.Bal-a.Bal != fee || b.Nonce != a.Nonce {
				v("C02:miner-contract-change-not-fee:"+cls, fmt.Sprintf("miner contract wallet %d -> %d with fee %d", a.Bal, b.Bal, fee))
			}
		default:
			what := world.Tap.KeyOf(d.Path)
			if world.Tap.IsAccount(d.Path) {
				what = "account " + d.Path
			}
			v("C02:failed-call-left-state-change:"+cls, fmt.Sprintf("leaf %s (%s) changed by a failed call: pre %d bytes, post %d bytes", d.Path, what, len(d.Pre), len(d.Post)))
		}
	}
	nErr := 0
	for _, e := range s.Events {
		switch {
		case e.Type == event.TypeError:
			nErr++
		case e.Tag == event.TagAddOrOverwriteUser || e.Tag == event.TagUniqueAddress:
		default:
			v("C02:failed-call-left-event:"+cls, fmt.Sprintf("event type %v tag %v index %s survived a failed call", e.Type, e.Tag, e.Index))
		}
	}
	if nErr != 1 {
		v("C02:error-event-count:"+cls, fmt.Sprintf("%d error events, want 1", nErr))
	}
}

// debitMonitor (C04): who may lose tokens in a transaction.
func DebitMonitor(w *world.World) chainsim.Monitor {
	contracts := map[string]bool{}
	for _, a := range world.SCAddresses {
		contracts[a] = true
	}
	return func(s *chainsim.Step, v func(key, what string)) {
		if s.Err != nil {
			return
		}
		cls := ActionClass(s.Action.Name)
		pre, post := Accounts(s.PreLeaves), Accounts(s.Post.Leaves)
		_, sts := EffectiveTransfers(s)
		var ids []string
		for id := range pre {
			ids = append(ids, id)
		}
		sort.Strings(ids)
		for _, id := range ids {
			a, b := pre[id], post[id]
			if b.Bal >= a.Bal {
				continue
			}
			lost := a.Bal - b.Bal
			switch {
			case id == s.Txn.ClientID:
				if allowed := uint64(s.Txn.Value) + uint64(s.Txn.Fee); lost > allowed {
					v("C04:sender-debited-beyond-value-plus-fee:"+cls, fmt.Sprintf("sender lost %d, value+fee = %d", lost, allowed))
				}
			case id == s.Txn.ToClientID && contracts[id]:
				// the called contract's own wallet
			default:
				ok := false
				for _, st := range sts {
					if st.ClientID == id && uint64(st.Amount) == lost && st.VerifySignature(true) == nil {
						ok = true
					}
				}
				if !ok && s.Txn.FunctionName == "free_allocation_request" {
					ok = FreeStorageDebitOK(w, s, id)
				}
				if !ok {
					v("C04:third-party-debited:"+cls, fmt.Sprintf("account %s lost %d in a transaction of %s to %s", id, lost, s.Txn.ClientID, s.Txn.ToClientID))
				}
			}
		}
	}
}

// FreeStorageDebitOK is refined by the storage scenario; until a free-storage action exists in
// an alphabet no transition reaches it.
var FreeStorageDebitOK = func(w *world.World, s *chainsim.Step, id string) bool { return false }

// SupplyMonitor: after every transition the sum over all account leaves equals MaxTokenSupply.
func SupplyMonitor(s *chainsim.Step, v func(key, what string)) {
	sum := new(big.Int)
	uncl := 0
	for _, l := range s.Post.Leaves {
		if world.Tap.IsAccount(l.Path) {
			st, ok := chainsim.DecodeAccount(l.Value)
			if !ok {
				v("C01:account-leaf-undecodable", "account leaf "+l.Path+" does not decode")
				continue
			}
			sum.Add(sum, new(big.Int).SetUint64(uint64(st.Balance)))
		} else if world.Tap.KeyOf(l.Path) == "" {
			uncl++
		}
	}
	if uncl > 0 {
		v("C01:harness:unclassified-leaf", fmt.Sprintf("%d leaves are neither accounts nor known contract nodes", uncl))
	}
	if sum.Cmp(new(big.Int).SetUint64(config.MaxTokenSupply)) != 0 {
		kind := "applied"
		if s.Err != nil {
			kind = "rejected"
		}
		v(fmt.Sprintf("C01:supply-changed:%s:%s", kind, ActionClass(s.Action.Name)),
			fmt.Sprintf("sum of all account balances = %s, MaxTokenSupply = %d", sum.String(), uint64(config.MaxTokenSupply)))
	}
	if s.Err != nil && len(s.Diff) > 0 {
		v("C01:rejected-txn-changed-state:"+ActionClass(s.Action.Name), fmt.Sprintf("%d leaves changed by a rejected transaction", len(s.Diff)))
	}
}

// ActionClass strips the arguments from an action name.
func ActionClass(n string) string {
	for i, c := range n {
		if c == '(' {
			return n[:i]
		}
	}
	return n
}
