// Package kvsc is a harness-owned test smart contract registered in the real contract map. Its
// only job is to let an explorer issue chosen trie operations (insert / read / delete of chosen
// keys, then succeed or fail) through the REAL pipeline: Chain.UpdateState -> ExecuteSmartContract
// -> StateContext.{GetTrieNode,InsertTrieNode,DeleteTrieNode} -> MPT / state cache / commit.
// Values are cacheable (they implement statecache.Value), so reads go through the state cache
// exactly like the repository's cacheable entities.
package kvsc

import (
	"context"
	"encoding/json"
	"errors"
	"fmt"
	"net/url"
	"strconv"
	"strings"

	cstate "0chain.net/chaincore/chain/state"
	"0chain.net/chaincore/smartcontract"
	"0chain.net/chaincore/state"
	"0chain.net/chaincore/transaction"
	"github.com/0chain/common/core/currency"
	"github.com/0chain/common/core/statecache"
	"github.com/0chain/common/core/util"
)

// Address of the test contract (a 64-hex id like the real ones).
const Address = "6dba10422e368813802877a85039d3985d96760ed844092319743fb3a7671fff"

// KV is the stored value.
type KV struct{ V string }

func (k *KV) MarshalMsg(b []byte) ([]byte, error) { return append(b, []byte(k.V)...), nil }
func (k *KV) UnmarshalMsg(b []byte) ([]byte, error) {
	k.V = string(b)
	return nil, nil
}
func (k *KV) Clone() statecache.Value { return &KV{V: k.V} }
func (k *KV) CopyFrom(v interface{}) bool {
	if o, ok := v.(*KV); ok {
		k.V = o.V
		return true
	}
	return false
}

// Op is one trie operation of a call.
type Op struct {
	Op string `json:"op"` // put | get | del | fund | pay | move | fail
	K  string `json:"k,omitempty"`
	V  string `json:"v,omitempty"`
}

// Key is the plaintext state key of k.
func Key(k string) string { return Address + ":kv:" + k }

type contract struct{}

func (contract) Execute(t *transaction.Transaction, fn string, input []byte, b cstate.StateContextI) (string, error) {
	var ops []Op
	if err := json.Unmarshal(input, &ops); err != nil {
		return "", err
	}
	var out []string
	for _, o := range ops {
		switch o.Op {
		case "put":
			if _, err := b.InsertTrieNode(Key(o.K), &KV{V: o.V}); err != nil {
				return "", err
			}
		case "get":
			v := &KV{}
			err := b.GetTrieNode(Key(o.K), v)
			switch err {
			case nil:
				out = append(out, o.K+"="+v.V)
				v.V = "mutated-in-place" // a caller mutating what it read must not affect later reads
			case util.ErrValueNotPresent:
				out = append(out, o.K+"=<absent>")
			default:
				return "", err
			}
		case "del":
			if _, err := b.DeleteTrieNode(Key(o.K)); err != nil && err != util.ErrValueNotPresent {
				return "", err
			}
		case "fund": // move the transaction's value from the sender into the contract's wallet (as staking contracts do)
			if err := b.AddTransfer(state.NewTransfer(t.ClientID, Address, t.Value)); err != nil {
				return "", err
			}
		case "move": // queue a transfer K = "from>to" of V tokens (contracts may move tokens between arbitrary accounts)
			ft := strings.SplitN(o.K, ">", 2)
			amt, err := strconv.ParseUint(o.V, 10, 64)
			if err != nil || len(ft) != 2 {
				return "", fmt.Errorf("kvsc: bad move %q %q", o.K, o.V)
			}
			if err := b.AddTransfer(state.NewTransfer(ft[0], ft[1], currency.Coin(amt))); err != nil {
				return "", err
			}
		case "pay": // transfer V tokens from the contract's wallet to account K (queued like any contract transfer)
			amt, err := strconv.ParseUint(o.V, 10, 64)
			if err != nil {
				return "", err
			}
			if err := b.AddTransfer(state.NewTransfer(Address, o.K, currency.Coin(amt))); err != nil {
				return "", err
			}
		case "fail":
			return "", errors.New("kvsc: requested failure after " + strings.Join(out, ","))
		default:
			return "", fmt.Errorf("kvsc: unknown op %q", o.Op)
		}
	}
	return strings.Join(out, ","), nil
}
func (contract) GetHandlerStats(context.Context, url.Values) (interface{}, error) { return nil, nil }
func (contract) GetExecutionStats() map[string]interface{}                        { return map[string]interface{}{} }
func (contract) GetName() string                                                  { return "kvsc" }
func (contract) GetAddress() string                                               { return Address }
func (contract) GetCostTable(cstate.StateContextI) (map[string]int, error) {
	return map[string]int{"run": 1}, nil
}

// Register puts the contract into the real contract map.
func Register() { smartcontract.ContractMap[Address] = contract{} }
