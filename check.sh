#!/bin/bash
# usage: ./check.sh <property id> [quick|thorough]      run the check(s) for one property
#        ./check.sh build <cmd> [race]                   build one check binary only
#        ./check.sh replay <file>                        print a replay artefact and re-run its property's quick check
# Rebuilds the check binaries from /repo's current working tree (overlay of add-only shims and of
# seams regenerated from the current sources), runs them, merges part evidence, and exits
# 0 (held) / 1 (VIOLATION printed) / 2 (internal error of the harness).
set -u
cd "$(dirname "$0")"
. ./env.sh
OUT=${VERIF_OUT:-$PWD}; SUF=${VERIF_BIN_SUFFIX:+.$VERIF_BIN_SUFFIX}
mkdir -p .work .bin "$OUT/evidence/parts" "$OUT/replays"

build() { # build <cmd> <race:0|1>
  local cmd=$1 race=$2 out=.bin/$1$SUF flags=() ov
  [ "$race" = 1 ] && { flags+=(-race); out=.bin/$1$SUF.race; }
  # short global lock: seam generation + overlay file (both idempotent, atomic writes)
  ov=$( {
    flock 9
    for sg in tools/seam.d/*.sh; do [ -x "$sg" ] && { "$sg" >/dev/null || { echo "INTERNAL: seam generator $sg failed" >&2; exit 2; }; }; done
    python3 tools/overlay.py || exit 2
  } 9>.work/seam.lock ) || return 2
  # per-output lock: concurrent builds of different binaries run in parallel
  (
    flock 8
    go build "${flags[@]}" -tags verif -overlay "$ov" -o "$out" "./cmd/$cmd" 2>&1 | grep -v '^WARNING' >&2
    exit ${PIPESTATUS[0]}
  ) 8>".work/build.$(basename "$out").lock"
}

if [ "${1:-}" = build ]; then build "$2" "$([ "${3:-}" = race ] && echo 1 || echo 0)"; exit $?; fi
if [ "${1:-}" = replay ]; then
  cat "$2"; id=$(python3 -c "import json,sys; print(json.load(open(sys.argv[1]))['property'])" "$2") || exit 2
  exec "$0" "$id" quick
fi

id=${1:?property id}; tier=${2:-${VERIF_TIER:-quick}}
parts=$(python3 tools/parts.py list "$id")
[ -n "$parts" ] || { echo "unknown property $id" >&2; exit 2; }
rm -f "$OUT/evidence/$id.json" "$OUT"/evidence/parts/"$id".*.json
if [ -n "${VERIF_FIRST_VIOLATION:-}" ]; then
  # detection mode (tools/detect.sh): build lazily, run the parts one by one, stop at the first part
  # that reports a violation (evidence of the remaining parts is not needed for a detection verdict)
  built=" "
  while IFS=$'\t' read -r cmd part race args; do
    case "$built" in *" $cmd:$race "*) ;; *) build "$cmd" "$race" || { echo "INTERNAL: build of $cmd failed" >&2; exit 2; }; built="$built$cmd:$race ";; esac
    bin=.bin/$cmd$SUF; [ "$race" = 1 ] && bin=.bin/$cmd$SUF.race
    VERIF_TIER=$tier VERIF_PART=$part VERIF_BIN="$PWD/$bin" "$bin" "$id" "$tier" $args; r=$?
    if [ "$r" -eq 1 ]; then exit 1; elif [ "$r" -ne 0 ]; then echo "INTERNAL: $cmd ($part) exited $r" >&2; exit 2; fi
  done <<< "$parts"
  exit 0
fi
# build every binary the property needs (per-binary locks), then run the parts, up to PAR at a time
while IFS=$'\t' read -r cmd part race args; do
  build "$cmd" "$race" || { echo "INTERNAL: build of $cmd failed" >&2; exit 2; }
done <<< "$(echo "$parts" | sort -u -k1,1 -k3,3)"
PAR=${VERIF_PART_PAR:-1}
logd=$(mktemp -d .work/parts.XXXXXX)
n=0
while IFS=$'\t' read -r cmd part race args; do
  bin=.bin/$cmd$SUF; [ "$race" = 1 ] && bin=.bin/$cmd$SUF.race
  (
    VERIF_TIER=$tier VERIF_PART=$part VERIF_BIN="$PWD/$bin" "$bin" "$id" "$tier" $args > "$logd/$part.log" 2>&1
    echo $? > "$logd/$part.rc"
  ) &
  n=$((n+1))
  if [ $((n % PAR)) -eq 0 ]; then wait; fi
done <<< "$parts"
wait
rc=0
while IFS=$'\t' read -r cmd part race args; do
  cat "$logd/$part.log"
  r=$(cat "$logd/$part.rc" 2>/dev/null || echo 2)
  if [ "$r" -eq 1 ]; then rc=1; elif [ "$r" -ne 0 ]; then echo "INTERNAL: $cmd ($part) exited $r" >&2; rm -rf "$logd"; exit 2; fi
done <<< "$parts"
rm -rf "$logd"
python3 tools/parts.py merge "$id" "$tier" || exit 2
exit $rc
