#!/bin/bash
# usage: ./check.sh <property id> [quick|thorough]      run the check for one property
#        ./check.sh build <cmd> [race]                   build one check binary only
# Rebuilds the check binary from /repo's current working tree (overlay of add-only shims and of
# seams regenerated from the current sources), runs it, and passes its exit status through.
set -u
cd "$(dirname "$0")"
. ./env.sh
mkdir -p .work .bin evidence replays

build() { # build <cmd> <race:0|1>
  local cmd=$1 race=$2 out=.bin/$1 flags=()
  [ "$race" = 1 ] && { flags+=(-race); out=.bin/$1.race; }
  (
    flock 9
    if [ -x tools/seamgen.sh ]; then ./tools/seamgen.sh >/dev/null || exit 2; fi
    ov=$(python3 tools/overlay.py) || exit 2
    go build "${flags[@]}" -tags verif -overlay "$ov" -o "$out" "./cmd/$cmd" 2>&1 | grep -v '^WARNING' >&2
    exit ${PIPESTATUS[0]}
  ) 9>.work/build.lock
}

if [ "${1:-}" = build ]; then build "$2" "$([ "${3:-}" = race ] && echo 1 || echo 0)"; exit $?; fi

id=${1:?property id}; tier=${2:-${VERIF_TIER:-quick}}
line=$(grep -P "^$id\t" checks.tsv) || { echo "unknown property $id" >&2; exit 2; }
cmd=$(echo "$line" | cut -f2); race=$(echo "$line" | cut -f3); args=$(echo "$line" | cut -f4)
build "$cmd" "$race" || { echo "INTERNAL: build of $cmd failed" >&2; exit 2; }
bin=.bin/$cmd; [ "$race" = 1 ] && bin=.bin/$cmd.race
export VERIF_TIER=$tier VERIF_BIN="$PWD/$bin"
exec "$bin" "$id" "$tier" $args
